"""Seeded change that is EQUIVALENT at line level: _STORE_INSTRUCTION_OFFSET = 3 makes the criterion the RETURN_VALUE of the called
function instead of the STORE of the test statement; the slice (minus test code) is the same, so no clause of C09 can see it.
The check reports it only as anomaly "statement-criterion-is-RETURN_VALUE-not-the-store-of-the-statement"."""
import os
from pathlib import Path

_p = Path(os.environ["VERIF_SELFTEST_PATCH"]).parent / "fix_all.py"
exec(compile(_p.read_text(), str(_p), "exec"), {"__name__": "selftest_patch"})  # noqa: S102  (baseline = silent tree)

from pynguin.slicer.statementslicingobserver import RemoteStatementSlicingObserver

RemoteStatementSlicingObserver._STORE_INSTRUCTION_OFFSET = 3
