"""All proposed fixes (see the fix_*.py files next to this one): the completeness oracle must be silent with them."""
import os
from pathlib import Path

for _n in ("fix_loop_self_dependence.py", "fix_subscr_def_py312.py", "fix_cdg_cycle_control_dependency.py", "fix_lineless_instruction.py",
           "fix_jump_into_empty_block.py"):
    _p = Path(os.environ["VERIF_SELFTEST_PATCH"]).parent / _n
    exec(compile(_p.read_text(), str(_p), "exec"), {"__name__": "selftest_patch"})  # noqa: S102
