"""Proposed FIX (not a break) for C09 finding 3, applied by monkeypatching: an instruction is registered for control
dependence whenever its block has any basic-block ancestor in the CDG, also when that ancestor is at the same time a
descendant (loop header <-> loop body containing `break`)."""
from pynguin.instrumentation.controlflow import BasicBlockNode
from pynguin.slicer.dynamicslicer import DynamicSlicer


def add_control_dependency(self, context, instr):
    cdg = self._known_code_objects[instr.code_object_id].cdg
    node = cdg.get_basic_block_node(instr.node_id)
    if any(isinstance(d, BasicBlockNode) for d in cdg.get_ancestors(node)):
        context.instr_ctrl_deps.add(instr)


DynamicSlicer.add_control_dependency = add_control_dependency
