"""Proposed FIX (not a break) for C09 finding 5, applied by monkeypatching: when the flow builder stands on the first
instruction of a basic block, a traced jump whose target is one of the EMPTY basic blocks directly in front of it
(blocks that only hold a TryBegin/TryEnd pseudo-instruction) is followed, instead of walking into the textually
preceding non-empty block, which was never executed."""
from pynguin.slicer.executionflowbuilder import ExecutionFlowBuilder


def _empty_blocks_in_front(self, code_object_id, node_id):
    out = set()
    node_id -= 1
    while node_id >= 0:
        node, _ = self._get_node(code_object_id, node_id)
        if any(True for _ in node.original_instructions):
            break
        out.add(node_id)
        node_id -= 1
    return out


def _determine_previous_instruction(self, efb_state, previous_traced_instr, instr):
    if not self._decrease_instr_original_index(efb_state):
        same_code = efb_state.previous_code_object_id == previous_traced_instr.code_object_id
        if (
            instr.is_jump_target
            and previous_traced_instr.is_jump()
            and previous_traced_instr.argument == efb_state.previous_node_id
        ) or (
            same_code
            and previous_traced_instr.is_jump()
            and previous_traced_instr.argument
            in _empty_blocks_in_front(self, efb_state.previous_code_object_id, efb_state.previous_node_id)
        ):
            assert same_code, "Jump to instruction must originate from same code object"
            self._continue_at_previous_traced(previous_traced_instr, efb_state)
            efb_state.jump = True
        else:
            self._continue_at_last_basic_block(efb_state)


ExecutionFlowBuilder._determine_previous_instruction = _determine_previous_instruction
