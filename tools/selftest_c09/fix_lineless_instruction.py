"""Proposed FIX (not a break) for C09 finding 4, applied by monkeypatching: instructions without a source line
(compiler-generated jumps, e.g. after the `exc = None; del exc` clean-up of an `except ... as exc` handler) are
skipped when a slice is mapped to lines instead of raising ValueError."""
from pynguin.instrumentation import AST_FILENAME
from pynguin.slicer.dynamicslicer import DynamicSlicer


def map_instructions_to_lines(instructions, subject_properties):
    line_ids = set()
    curr_line = None
    for instruction in instructions:
        if instruction.file == AST_FILENAME or instruction.lineno is None:
            continue
        if instruction.lineno == curr_line:
            continue
        curr_line = instruction.lineno
        line_ids.add(DynamicSlicer.get_line_id_by_instruction(instruction, subject_properties))
    return line_ids


DynamicSlicer.map_instructions_to_lines = staticmethod(map_instructions_to_lines)
