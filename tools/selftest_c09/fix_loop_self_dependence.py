"""Proposed FIX (not a break) for C09 finding 1, applied by monkeypatching: the CDG descendants of a self-looping block
include the block itself, so that the loop test at the end of iteration k claims the body instructions of iteration k+1."""
import networkx as nx

from pynguin.instrumentation.controlflow import ControlDependenceGraph


def get_descendants(self, node):
    out = nx.descendants(self._graph, node)
    if self._graph.has_edge(node, node):
        out = out | {node}
    return out


ControlDependenceGraph.get_descendants = get_descendants
