"""Proposed FIX (not a break) for C09 finding 2, applied by monkeypatching: STORE_SUBSCR/BINARY_SUBSCR/DELETE_SUBSCR are
memory definitions on Python 3.12 as they are on 3.10, 3.11 and 3.13."""
import pynguin.slicer.executionflowbuilder as efb

efb.MEMORY_DEF_NAMES = tuple(efb.MEMORY_DEF_NAMES) + ("STORE_SUBSCR", "BINARY_SUBSCR", "DELETE_SUBSCR")
