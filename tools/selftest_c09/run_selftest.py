"""Self-test of C09: applies each seeded break (on top of the proposed fixes, so that the baseline is silent) and reports
which witness keys fire.  Usage: /venv/bin/python tools/selftest_c09/run_selftest.py [--only '<substring of chunk spec>']
Overwrites evidence/C09.json: re-run the real check afterwards."""
import json
import os
import subprocess
import sys
from pathlib import Path

HERE = Path(__file__).resolve().parent
VERIF = HERE.parent.parent
only = sys.argv[sys.argv.index("--only") + 1] if "--only" in sys.argv else None
names = ["fix_all.py"] + sorted(p.name for p in HERE.glob("break_*.py"))
rows = []
for name in names:
    env = dict(os.environ, VERIF_SELFTEST_PATCH=str(HERE / name))
    cmd = ["/venv/bin/python", str(VERIF / "run_check.py"), "C09", "--tier", "quick"]
    if only:
        cmd += ["--only", only]
    cp = subprocess.run(cmd, env=env, capture_output=True, text=True, cwd=str(VERIF))
    ev = json.loads((VERIF / "evidence" / "C09.json").read_text())["coverage"]
    wc = ev.get("witness_counts_by_mechanism", {})
    harness = [r for r in ev.get("inconclusive_reasons", []) if "harness exception" in r or "died" in r or "disagrees" in r]
    rows.append((name, cp.returncode, wc, harness))
    print(f"{name:45s} rc={cp.returncode} witnesses={json.dumps(wc, sort_keys=True)} {'HARNESS-PROBLEM ' + harness[0][:200] if harness else ''}", flush=True)
base = rows[0]
ok = not base[2]
for name, rc, wc, harness in rows[1:]:
    ok = ok and bool(wc) and not harness
print("SELFTEST", "PASSED" if ok else "FAILED", "(baseline with proposed fixes silent:", not base[2], ")")
