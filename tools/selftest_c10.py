#!/venv/bin/python
"""Self-test of check C10: apply one realistic seeded break by monkeypatching (never editing /repo), run a part
of the check in-process and print the witness keys.
Usage: PYTHONHASHSEED=0 /venv/bin/python tools/selftest_c10.py [name ...]
"""

from __future__ import annotations

import math
import pathlib
import shutil
import sys
import tempfile

sys.path.insert(0, str(pathlib.Path(__file__).resolve().parent.parent))

from vlib import core  # noqa: E402

import checks.c10_fitness_consistency as chk  # noqa: E402


def _rebind(name, fn):
    """fitness_metrics functions are bound by name into computations / controlflowdistance at import."""
    import pynguin.ga.computations as ff
    import pynguin.ga.fitness_metrics as fm
    import pynguin.utils.controlflowdistance as cfd

    setattr(fm, name, fn)
    for m in (ff, cfd):
        if hasattr(m, name):
            setattr(m, name, fn)


def brk_PROPOSED_FIX_is_covered_items():
    """Not a break: the proposed patch for covered-verdict:false-at-zero-fitness:branch-distance (must go silent)."""
    import pynguin.ga.fitness_metrics as fm

    def fixed(trace, subject_properties, exclude_code=None, exclude_true=None, exclude_false=None):
        exclude_code = set() if exclude_code is None else exclude_code
        if any(
            c not in trace.executed_code_objects and c not in exclude_code
            for c in subject_properties.branch_less_code_objects
        ):
            return False
        exclude_true = set() if exclude_true is None else exclude_true
        exclude_false = set() if exclude_false is None else exclude_false
        for predicate in subject_properties.existing_predicates:
            if predicate not in exclude_true and trace.true_distances.get(predicate) != 0.0:
                return False
            if predicate not in exclude_false and trace.false_distances.get(predicate) != 0.0:
                return False
        return True

    _rebind("compute_branch_distance_fitness_is_covered", fixed)
    return fm


def brk_two_executions_rule_off_by_one():
    brk_PROPOSED_FIX_is_covered_items()
    import pynguin.ga.fitness_metrics as fm

    def _predicate_fitness(predicate, branch_distances, trace):
        if predicate in branch_distances and branch_distances[predicate] == 0.0:
            return 0.0
        if predicate in trace.executed_predicates and trace.executed_predicates[predicate] >= 1:  # seeded: >= 1
            return fm.normalise(branch_distances[predicate])
        return 1.0

    fm._predicate_fitness = _predicate_fitness


def brk_coverage_forgets_branchless():
    brk_PROPOSED_FIX_is_covered_items()

    def compute_branch_coverage(trace, subject_properties):
        existing = len(subject_properties.existing_predicates) * 2  # seeded: branch-less code objects not counted
        covered = len([v for v in trace.true_distances.values() if v == 0.0])
        covered += len([v for v in trace.false_distances.values() if v == 0.0])
        return 1.0 if existing == 0 else covered / existing

    _rebind("compute_branch_coverage", compute_branch_coverage)


def brk_normalise_inf():
    brk_PROPOSED_FIX_is_covered_items()

    def normalise(value):
        if value < 0:
            raise RuntimeError("Values to normalise cannot be negative")
        return value / (1.0 + value)  # seeded: inf/inf = nan

    _rebind("normalise", normalise)


def brk_branch_goal_covered_when_executed():
    brk_PROPOSED_FIX_is_covered_items()
    import pynguin.ga.coveragegoals as cg

    def is_covered(self, result):
        return self._predicate_id in result.execution_trace.executed_predicates  # seeded: distance not looked at

    cg.BranchGoal.is_covered = is_covered


def brk_exclusions_ignored_for_false_branches():
    brk_PROPOSED_FIX_is_covered_items()
    import pynguin.ga.fitness_metrics as fm

    orig = fm.compute_branch_distance_fitness

    def compute_branch_distance_fitness(trace, sp, exclude_code=None, exclude_true=None, exclude_false=None):
        return orig(trace, sp, exclude_code, exclude_true, None)  # seeded

    _rebind("compute_branch_distance_fitness", compute_branch_distance_fitness)


def brk_approach_level_zero_for_unexecuted_code_object():
    brk_PROPOSED_FIX_is_covered_items()
    import pynguin.utils.controlflowdistance as cfd

    orig = cfd.get_non_root_control_flow_distance

    def get_non_root_control_flow_distance(result, predicate_id, value, subject_properties):
        code = subject_properties.existing_predicates[predicate_id].code_object_id
        if code not in result.execution_trace.executed_code_objects:
            return cfd.ControlFlowDistance()  # seeded: diameter not applied
        return orig(result, predicate_id, value, subject_properties)

    cfd.get_non_root_control_flow_distance = get_non_root_control_flow_distance


def brk_line_is_covered_off_by_one():
    brk_PROPOSED_FIX_is_covered_items()

    def compute_line_coverage_fitness_is_covered(trace, subject_properties):
        return len(trace.covered_line_ids) >= len(subject_properties.existing_lines) - 1  # seeded

    _rebind("compute_line_coverage_fitness_is_covered", compute_line_coverage_fitness_is_covered)


def brk_cache_is_covered_tolerance():
    brk_PROPOSED_FIX_is_covered_items()
    import pynguin.ga.computation_cache as cc

    def _compute_fitness(self, only=None):
        for fitness_func in self._fitness_functions if only is None else (only,):
            if fitness_func not in self._fitness_cache:
                new_value = fitness_func.compute_fitness(self._chromosome)
                self._fitness_cache[fitness_func] = new_value
                self._is_covered_cache[fitness_func] = math.isclose(new_value, 0.0, abs_tol=1e-6)  # seeded: tolerance

    cc.ComputationCache._compute_fitness = _compute_fitness


BREAKS = {k[4:]: v for k, v in globals().items() if k.startswith("brk_")}


def run(name):
    import subprocess

    out = subprocess.run([sys.executable, __file__, "__child__", name], capture_output=True, text=True, env=core.child_env())
    print(out.stdout.strip() or out.stderr[-800:])


def child(name):
    if name != "none":
        BREAKS[name]()
    ctx = core.Ctx("C10", "quick", 0)
    ctx.scratch = pathlib.Path(tempfile.mkdtemp())
    try:
        chk.run_chunk({"name": "directed", "seed": 0}, ctx)
        chk.run_chunk({"name": "random", "seed": 0, "part": 0, "modules": 4}, ctx)
    finally:
        shutil.rmtree(ctx.scratch, ignore_errors=True)
    keys = ctx.extra.get("witness_counts", {})
    print(f"break={name}: evals={ctx.evals} inconclusive={ctx.inconclusive[:1]} witness keys:")
    for k, v in sorted(keys.items()):
        print(f"    {v:6d}  {k}")


if __name__ == "__main__":
    if len(sys.argv) > 2 and sys.argv[1] == "__child__":
        child(sys.argv[2])
    else:
        for n in sys.argv[1:] or ["none", *BREAKS]:
            run(n)
