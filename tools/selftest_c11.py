#!/venv/bin/python
"""Self-test of check C11: apply one realistic seeded break by monkeypatching (never editing /repo), run a part
of the check in-process and print the witness keys.
Usage: PYTHONHASHSEED=0 /venv/bin/python tools/selftest_c11.py [name ...]
"""

from __future__ import annotations

import pathlib
import shutil
import sys
import tempfile

from math import inf

sys.path.insert(0, str(pathlib.Path(__file__).resolve().parent.parent))

from vlib import core  # noqa: E402

import checks.c11_monotone_merge as chk  # noqa: E402


def _patch_merge(**over):
    """Rebuild ExecutionTrace.merge from its parts with one part replaced."""
    import pynguin.instrumentation.tracer as tr

    ET = tr.ExecutionTrace

    def merge(self, other):
        if "code" in over:
            over["code"](self, other)
        else:
            self.executed_code_objects.update(other.executed_code_objects)
        if "counts" in over:
            over["counts"](self, other)
        else:
            for key, value in other.executed_predicates.items():
                self.executed_predicates[key] = self.executed_predicates.get(key, 0) + value
        self._merge_min(self.true_distances, other.true_distances)
        self._merge_min(self.false_distances, other.false_distances)
        if "lines" in over:
            over["lines"](self, other)
        else:
            self.covered_line_ids.update(other.covered_line_ids)
        self.checked_lines.update(other.checked_lines)
        shift = len(self.executed_instructions)
        self.executed_instructions.extend(other.executed_instructions)
        self.object_addresses.update(other.object_addresses)
        self.executed_assertions.extend(
            tr.ExecutedAssertion(a.trace_position + (0 if "noshift" in over else shift), a.assertion)
            for a in other.executed_assertions
        )

    ET.merge = merge


def brk_merge_min_takes_max():
    import pynguin.instrumentation.tracer as tr

    def _merge_min(target, source):
        for key, value in source.items():
            target[key] = max(target.get(key, 0.0), value)  # seeded

    tr.ExecutionTrace._merge_min = staticmethod(_merge_min)


def brk_merge_min_overwrites():
    import pynguin.instrumentation.tracer as tr

    def _merge_min(target, source):
        for key, value in source.items():
            target[key] = value  # seeded: last one wins

    tr.ExecutionTrace._merge_min = staticmethod(_merge_min)


def brk_hit_counts_overwritten():
    def counts(self, other):
        for key, value in other.executed_predicates.items():
            self.executed_predicates[key] = value  # seeded: not summed

    _patch_merge(counts=counts)


def brk_hit_counts_max_ANOMALY_ONLY():
    """Commutative and monotone, hence not a violation of the statement: expected to show as an anomaly only."""
    def counts(self, other):
        for key, value in other.executed_predicates.items():
            self.executed_predicates[key] = max(self.executed_predicates.get(key, 0), value)

    _patch_merge(counts=counts)


def brk_covered_lines_replaced():
    def lines(self, other):
        if other.covered_line_ids:
            self.covered_line_ids = other.covered_line_ids  # seeded: replaced (and aliased) instead of updated

    _patch_merge(lines=lines)


def brk_code_objects_replaced_by_copy():
    from pynguin.utils.orderedset import OrderedSet

    def code(self, other):
        self.executed_code_objects = OrderedSet(other.executed_code_objects)  # seeded

    _patch_merge(code=code)


def brk_assertion_positions_not_shifted():
    _patch_merge(noshift=True)


def brk_two_executions_rule_exactly_two():
    import pynguin.ga.fitness_metrics as fm

    def _predicate_fitness(predicate, branch_distances, trace):
        if predicate in branch_distances and branch_distances[predicate] == 0.0:
            return 0.0
        if predicate in trace.executed_predicates and trace.executed_predicates[predicate] == 2:  # seeded: == 2
            return fm.normalise(branch_distances[predicate])
        return 1.0

    fm._predicate_fitness = _predicate_fitness


def brk_two_executions_rule_per_trace():
    """analyze_results caps every single trace's count at 1 unless that trace alone reached 2 (rule applied per trace)."""
    import pynguin.ga.computations as ff
    import pynguin.ga.fitness_metrics as fm

    from pynguin.instrumentation.tracer import ExecutionTrace

    def analyze_results(results):
        merged = ExecutionTrace()
        first = True
        for result in results:
            trace = result.execution_trace
            keep = dict(merged.executed_predicates)
            merged.merge(trace)
            if not first:
                for k, v in trace.executed_predicates.items():
                    # seeded: counts of later traces only count if that trace alone had >= 2
                    merged.executed_predicates[k] = keep.get(k, 0) + (v if v >= 2 else 0) if k in keep else v
            first = False
        return merged

    fm.analyze_results = analyze_results
    ff.analyze_results = analyze_results


def brk_line_coverage_counts_last_test_only():
    import pynguin.ga.computations as ff

    def compute_coverage(self, individual):
        results = self._run_test_suite_chromosome(individual)
        existing = len(self._executor.subject_properties.existing_lines)
        if existing == 0 or not results:
            return 1.0 if existing == 0 else 0.0
        return len(results[-1].execution_trace.covered_line_ids) / existing  # seeded: not merged

    ff.TestSuiteLineCoverageFunction.compute_coverage = compute_coverage


BREAKS = {k[4:]: v for k, v in globals().items() if k.startswith("brk_")}


def run(name):
    import subprocess

    out = subprocess.run([sys.executable, __file__, "__child__", name], capture_output=True, text=True, env=core.child_env())
    print(out.stdout.strip() or out.stderr[-800:])


def child(name):
    if name != "none":
        BREAKS[name]()
    ctx = core.Ctx("C11", "quick", 0)
    ctx.scratch = pathlib.Path(tempfile.mkdtemp())
    try:
        chk.run_chunk({"name": "directed", "seed": 0}, ctx)
        chk.run_chunk({"name": "random", "seed": 0, "part": 0, "modules": 3}, ctx)
    finally:
        shutil.rmtree(ctx.scratch, ignore_errors=True)
    keys = ctx.extra.get("witness_counts", {})
    print(f"break={name}: evals={ctx.evals} inconclusive={ctx.inconclusive[:1]} anomalies={dict(ctx.anomalies)} witness keys:")
    for k, v in sorted(keys.items()):
        print(f"    {v:6d}  {k}")


if __name__ == "__main__":
    if len(sys.argv) > 2 and sys.argv[1] == "__child__":
        child(sys.argv[2])
    else:
        for n in sys.argv[1:] or ["none", *BREAKS]:
            run(n)
