#!/venv/bin/python
"""Self-test of check C12: apply one realistic seeded break by monkeypatching (never editing /repo), run a part
of the check in-process and print the witness keys.  Every break is applied on top of the two proposed fixes, so
that only the seeded mechanism can fire.
Usage: PYTHONHASHSEED=0 /venv/bin/python tools/selftest_c12.py [name ...]
"""

from __future__ import annotations

import pathlib
import shutil
import sys
import tempfile

sys.path.insert(0, str(pathlib.Path(__file__).resolve().parent.parent))

from vlib import core  # noqa: E402

import checks.c12_cache as chk  # noqa: E402


def fix_mutate_fallback():
    """Proposed patch A': in the 'no call on SUT -> restore backup and insert' path the result of the insertion must
    not overwrite a change made by the chop that happened *before* the backup was taken (regression of 10876b2)."""
    import pynguin.configuration as config
    import pynguin.ga.operators.mutation as mu

    from pynguin.utils import randomness

    def mutate(self, chromosome):
        changed = False
        sa = config.configuration.search_algorithm
        if sa.chop_max_length and chromosome.size() >= sa.chromosome_length:
            last = chromosome.get_last_mutatable_statement()
            if last is not None:
                chromosome.test_case.remove_statements_batch(set(range(last + 1, chromosome.test_case.size())))
                changed = True
        chopped = changed  # patched
        backup = chromosome.test_case.clone()
        if randomness.next_float() <= sa.test_delete_probability and chromosome._mutation_delete():
            changed = True
        if randomness.next_float() <= sa.test_change_probability and chromosome._mutation_change():
            changed = True
        if randomness.next_float() <= sa.test_insert_probability and chromosome._mutation_insert():
            changed = True
        test_factory = chromosome.test_factory
        if not test_factory.has_call_on_sut(chromosome.test_case):
            chromosome.test_case = backup
            inserted = chromosome._mutation_insert()  # patched
            changed = chopped or inserted  # patched
        if changed:
            chromosome.changed = True
            chromosome.register_mutation()

    mu.TestCaseMutation.mutate = mutate


def fix_check_cache_membership():
    """Proposed patch B: _check_cache looks at membership instead of comparing sizes."""
    import pynguin.ga.computation_cache as cc

    def _check_cache(self, comp, cache, funcs, only=None):
        if self._chromosome.changed:
            self.invalidate_cache()
            comp(only)
            self._chromosome.changed = False
        elif (only not in cache) if only is not None else any(f not in cache for f in funcs):  # patched
            comp(only)

    cc.ComputationCache._check_cache = _check_cache


def brk_PROPOSED_FIXES():
    fix_mutate_fallback()
    fix_check_cache_membership()


def brk_PROPOSED_FIX_A_only():
    fix_mutate_fallback()


def brk_PROPOSED_FIX_B_only():
    fix_check_cache_membership()


def brk_testcase_crossover_forgets_changed():
    brk_PROPOSED_FIXES()
    import pynguin.configuration as config
    import pynguin.ga.operators.crossover as co

    def splice(parent, other, position1, position2):
        off = parent.test_case.clone()
        if off.size() > position1:
            off.remove_statements_batch(set(range(position1, off.size())))
        off.append_test_case_from(other.test_case, position2)
        if off.size() < config.configuration.search_algorithm.chromosome_length:
            parent.test_case = off  # seeded: parent.changed = True missing

    co.splice_test_case_chromosomes = splice


def brk_suite_crossover_forgets_changed():
    brk_PROPOSED_FIXES()
    import pynguin.ga.operators.crossover as co

    def splice(parent, other, position1, position2):
        parent.test_case_chromosomes = parent.test_case_chromosomes[:position1] + [
            t.clone() for t in other.test_case_chromosomes[position2:]
        ]  # seeded: parent.changed = True missing

    co.splice_test_suite_chromosomes = splice


def brk_clone_shares_cache_dicts():
    brk_PROPOSED_FIXES()
    import pynguin.ga.computation_cache as cc

    def clone(self, new_chromosome):
        c = cc.ComputationCache(new_chromosome, fitness_functions=list(self._fitness_functions),
                                coverage_functions=list(self._coverage_functions))
        c._fitness_cache = self._fitness_cache  # seeded: shared
        c._is_covered_cache = self._is_covered_cache
        c._coverage_cache = self._coverage_cache
        return c

    cc.ComputationCache.clone = clone


def brk_clone_shares_function_lists():
    brk_PROPOSED_FIXES()
    import pynguin.ga.computation_cache as cc

    def clone(self, new_chromosome):
        c = cc.ComputationCache(new_chromosome, fitness_cache=dict(self._fitness_cache),
                                is_covered_cache=dict(self._is_covered_cache), coverage_cache=dict(self._coverage_cache))
        c._fitness_functions = self._fitness_functions  # seeded: shared lists
        c._coverage_functions = self._coverage_functions
        return c

    cc.ComputationCache.clone = clone


def brk_add_test_forgets_changed():
    brk_PROPOSED_FIXES()
    import pynguin.ga.testsuitechromosome as tsc

    def add_test_case_chromosome(self, test):
        self.test_case_chromosomes.append(test)  # seeded

    tsc.TestSuiteChromosome.add_test_case_chromosome = add_test_case_chromosome


def brk_delete_test_forgets_changed():
    brk_PROPOSED_FIXES()
    import pynguin.ga.testsuitechromosome as tsc

    def delete_test_case_chromosome(self, test):
        try:
            self.test_case_chromosomes.remove(test)  # seeded
        except ValueError:
            pass

    tsc.TestSuiteChromosome.delete_test_case_chromosome = delete_test_case_chromosome


def brk_set_test_forgets_changed():
    brk_PROPOSED_FIXES()
    import pynguin.ga.testsuitechromosome as tsc

    def set_test_case_chromosome(self, index, test):
        self.test_case_chromosomes[index] = test  # seeded

    tsc.TestSuiteChromosome.set_test_case_chromosome = set_test_case_chromosome


def brk_check_cache_keeps_values_when_changed():
    brk_PROPOSED_FIXES()
    import pynguin.ga.computation_cache as cc

    def _check_cache(self, comp, cache, funcs, only=None):
        if self._chromosome.changed:
            comp(only)  # seeded: invalidate_cache() missing
            self._chromosome.changed = False
        elif (only not in cache) if only is not None else any(f not in cache for f in funcs):
            comp(only)

    cc.ComputationCache._check_cache = _check_cache


def brk_suite_mutation_forgets_changed_for_member_mutation():
    brk_PROPOSED_FIXES()
    import pynguin.configuration as config
    import pynguin.ga.operators.mutation as mu

    from pynguin.utils import randomness

    def mutate(self, chromosome):
        changed = False
        for test in chromosome.test_case_chromosomes:
            if randomness.next_float() < 1.0 / chromosome.size():
                test.mutate()  # seeded: 'if test.changed: changed = True' missing
        alpha = config.configuration.search_algorithm.test_insertion_probability
        exponent = 1
        while randomness.next_float() <= pow(alpha, exponent) and chromosome.size() < config.configuration.test_creation.max_size:
            chromosome.add_test_case_chromosome(chromosome.test_case_chromosome_factory.get_chromosome())
            exponent += 1
            changed = True
        chromosome.test_case_chromosomes = [t for t in chromosome.test_case_chromosomes if t.size() > 0]
        if changed:
            chromosome.changed = True

    mu.TestSuiteMutation.mutate = mutate


def brk_suite_run_reuses_results_of_changed_tests():
    brk_PROPOSED_FIXES()
    import pynguin.ga.computations as ff

    def _run_test_suite_chromosome(self, individual):
        results = []
        for t in individual.test_case_chromosomes:
            if t.get_last_execution_result() is None:  # seeded: 't.changed or' missing
                t.set_last_execution_result(self._executor.execute(t.test_case))
                t.changed = False
                t.invalidate_cache()
            results.append(t.get_last_execution_result())
        return results

    ff.TestSuiteChromosomeComputation._run_test_suite_chromosome = _run_test_suite_chromosome


def brk_suite_run_does_not_invalidate_member_cache():
    brk_PROPOSED_FIXES()
    import pynguin.ga.computations as ff

    def _run_test_suite_chromosome(self, individual):
        results = []
        for t in individual.test_case_chromosomes:
            if t.changed or t.get_last_execution_result() is None:
                t.set_last_execution_result(self._executor.execute(t.test_case))
                t.changed = False  # seeded: t.invalidate_cache() missing
            results.append(t.get_last_execution_result())
        return results

    ff.TestSuiteChromosomeComputation._run_test_suite_chromosome = _run_test_suite_chromosome


def brk_testcase_clone_resets_changed():
    brk_PROPOSED_FIXES()
    import pynguin.ga.testcasechromosome as tcc

    orig = tcc.TestCaseChromosome.__init__

    def __init__(self, test_case=None, test_factory=None, orig_=None, **kw):
        o = kw.get("orig", orig_)
        orig(self, test_case, test_factory, o)
        if o is not None:
            self.changed = False  # seeded: the clone forgets that its source was changed

    tcc.TestCaseChromosome.__init__ = __init__


def brk_mutate_chop_forgets_changed():
    brk_PROPOSED_FIXES()
    import pynguin.configuration as config
    import pynguin.ga.operators.mutation as mu

    from pynguin.utils import randomness

    def mutate(self, chromosome):
        changed = False
        sa = config.configuration.search_algorithm
        if sa.chop_max_length and chromosome.size() >= sa.chromosome_length:
            last = chromosome.get_last_mutatable_statement()
            if last is not None:
                chromosome.test_case.remove_statements_batch(set(range(last + 1, chromosome.test_case.size())))
                # seeded: changed = True missing
        backup = chromosome.test_case.clone()
        if randomness.next_float() <= sa.test_delete_probability and chromosome._mutation_delete():
            changed = True
        if randomness.next_float() <= sa.test_change_probability and chromosome._mutation_change():
            changed = True
        if randomness.next_float() <= sa.test_insert_probability and chromosome._mutation_insert():
            changed = True
        if not chromosome.test_factory.has_call_on_sut(chromosome.test_case):
            chromosome.test_case = backup
            changed = chromosome._mutation_insert()
        if changed:
            chromosome.changed = True
            chromosome.register_mutation()

    mu.TestCaseMutation.mutate = mutate


def brk_suite_splice_marks_changed_only_when_tail_added():
    brk_PROPOSED_FIXES()
    import pynguin.ga.operators.crossover as co

    def splice(parent, other, position1, position2):
        tail = [t.clone() for t in other.test_case_chromosomes[position2:]]
        parent.test_case_chromosomes = parent.test_case_chromosomes[:position1] + tail
        if tail:  # seeded: a splice that only shrinks the suite is not reported
            parent.changed = True

    co.splice_test_suite_chromosomes = splice


def brk_testcase_splice_marks_changed_only_when_longer():
    brk_PROPOSED_FIXES()
    import pynguin.configuration as config
    import pynguin.ga.operators.crossover as co

    def splice(parent, other, position1, position2):
        off = parent.test_case.clone()
        if off.size() > position1:
            off.remove_statements_batch(set(range(position1, off.size())))
        kept = off.size()
        off.append_test_case_from(other.test_case, position2)
        if off.size() < config.configuration.search_algorithm.chromosome_length:
            parent.test_case = off
            if off.size() > kept:  # seeded
                parent.changed = True

    co.splice_test_case_chromosomes = splice


def brk_delete_last_test_forgets_changed():
    brk_PROPOSED_FIXES()
    import pynguin.ga.testsuitechromosome as tsc

    def delete_test_case_chromosome(self, test):
        try:
            self.test_case_chromosomes.remove(test)
            if self.test_case_chromosomes:  # seeded: deleting the only test is not reported
                self.changed = True
        except ValueError:
            pass

    tsc.TestSuiteChromosome.delete_test_case_chromosome = delete_test_case_chromosome


BREAKS = {k[4:]: v for k, v in globals().items() if k.startswith("brk_")}


def run(name):
    import subprocess

    out = subprocess.run([sys.executable, __file__, "__child__", name], capture_output=True, text=True, env=core.child_env())
    print(out.stdout.strip() or out.stderr[-1200:])


def child(name):
    if name != "none":
        BREAKS[name]()
    ctx = core.Ctx("C12", "quick", 0)
    ctx.scratch = pathlib.Path(tempfile.mkdtemp())
    try:
        for sut in chk.SUTS:
            chk.run_chunk({"name": "directed", "seed": 0, "sut": sut}, ctx)
        chk.run_chunk({"name": "random", "seed": 0, "part": 0, "histories": 150}, ctx)
    finally:
        shutil.rmtree(ctx.scratch, ignore_errors=True)
    keys = ctx.extra.get("witness_counts", {})
    anom = {k: v for k, v in ctx.anomalies.items() if not k.startswith("unregistered")}
    print(f"break={name}: evals={ctx.evals} inconclusive={ctx.inconclusive[:1]} anomalies={anom} witness keys:")
    for k, v in sorted(keys.items()):
        print(f"    {v:6d}  {k}")


if __name__ == "__main__":
    if len(sys.argv) > 2 and sys.argv[1] == "__child__":
        child(sys.argv[2])
    else:
        from concurrent.futures import ThreadPoolExecutor

        names = sys.argv[1:] or ["none", *BREAKS]
        with ThreadPoolExecutor(max_workers=6) as ex:
            list(ex.map(run, names))
