#!/venv/bin/python
"""Self-test of check C13: realistic seeded breaks applied by monkeypatching (never editing /repo).

Usage: /venv/bin/python tools/selftest_c13.py [name ...]      (default: all)
Synthetic part runs in a child of this script; for breaks marked REAL a real-run chunk is run as well (the check's
own child applies the break through spec["seeded_break"]).
"""

from __future__ import annotations

import pathlib
import shutil
import subprocess
import sys
import tempfile

sys.path.insert(0, str(pathlib.Path(__file__).resolve().parent.parent))


def brk_cov_replace_on_equal_size():
    import pynguin.ga.algorithms.archive as arch

    def _is_better_than_current(current, candidate):
        cur, cand = current.get_last_execution_result(), candidate.get_last_execution_result()
        if cur is not None and (cur.timeout or cur.has_test_exceptions()):
            if cand is not None and not cand.timeout and not cand.has_test_exceptions():
                return True
        return candidate.size() <= current.size()  # seeded: <= instead of <

    arch.CoverageArchive._is_better_than_current = staticmethod(_is_better_than_current)


def brk_cov_replace_with_longer():
    import pynguin.ga.algorithms.archive as arch

    def _is_better_than_current(current, candidate):
        return candidate.size() > current.size()  # seeded: comparison flipped, error status ignored

    arch.CoverageArchive._is_better_than_current = staticmethod(_is_better_than_current)


def brk_cov_update_forgets_current_best():
    import pynguin.ga.algorithms.archive as arch

    def update(self, solutions):
        updated = False
        for objective in self._objectives:
            best_solution = None  # seeded: does not start from the archived solution
            for solution in solutions:
                if solution.get_is_covered(objective) and (
                    best_solution is None or self._is_better_than_current(best_solution, solution)
                ):
                    updated = True
                    self._covered[objective] = solution
                    best_solution = solution
                    if objective in self._uncovered:
                        self._uncovered.remove(objective)
                        self._on_target_covered(objective)
        return updated

    arch.CoverageArchive.update = update


def brk_cov_drops_goal_on_timeout():
    import pynguin.ga.algorithms.archive as arch

    orig = arch.CoverageArchive.update

    def update(self, solutions):
        ret = orig(self, solutions)
        for objective, sol in list(self._covered.items()):
            res = sol.get_last_execution_result()
            if res is not None and res.timeout:  # seeded: "flaky" solutions are evicted, goal becomes uncovered again
                del self._covered[objective]
                self._uncovered.add(objective)
        return ret

    arch.CoverageArchive.update = update


def brk_cov_archives_near_miss():
    """REAL"""
    import pynguin.ga.algorithms.archive as arch

    def update(self, solutions):
        updated = False
        for objective in self._objectives:
            best_solution = self._covered.get(objective, None)
            for solution in solutions:
                covers = solution.get_fitness_for(objective) < 1.0  # seeded: near misses count as covering
                if covers and (best_solution is None or self._is_better_than_current(best_solution, solution)):
                    updated = True
                    self._covered[objective] = solution
                    best_solution = solution
                    if objective in self._uncovered:
                        self._uncovered.remove(objective)
                        self._on_target_covered(objective)
        return updated

    arch.CoverageArchive.update = update
    arch.CoverageArchive._all_covered = lambda self: True


def brk_mio_shrink_keeps_solutions():
    import pynguin.ga.algorithms.archive as arch

    def shrink_population(self, new_population_size):
        assert new_population_size > 0
        if self.is_covered:
            return
        self._capacity = max(self._capacity, new_population_size)  # seeded: never shrinks

    arch.MIOPopulation.shrink_population = shrink_population


def brk_mio_shrink_capacity_only():
    import pynguin.ga.algorithms.archive as arch

    def shrink_population(self, new_population_size):
        assert new_population_size > 0
        if self.is_covered:
            return
        self._capacity = new_population_size  # seeded: solutions not truncated

    arch.MIOPopulation.shrink_population = shrink_population


def brk_mio_covered_keeps_old_solutions():
    import pynguin.ga.algorithms.archive as arch

    orig = arch.MIOPopulation.add_solution

    def add_solution(self, h, chrom):
        if h == 1.0 and not self.is_covered:
            # seeded: covering solution is put first but the partial ones are kept and capacity is not reduced
            self._solutions.insert(0, arch.MIOPopulationPair(h, chrom))
            del self._solutions[self._capacity:]
            self._counter = 0
            return True
        return orig(self, h, chrom)

    arch.MIOPopulation.add_solution = add_solution
    arch.MIOPopulation.is_covered = property(lambda self: len(self._solutions) >= 1 and self._solutions[0].h == 1.0)


def brk_mio_replaces_covered_by_longer():
    import pynguin.ga.algorithms.archive as arch

    def _is_better_than_current(current, candidate):
        return True  # seeded: newest always wins

    arch.MIOPopulation._is_better_than_current = staticmethod(_is_better_than_current)


def brk_mio_chop_off_by_one():
    """REAL"""
    import pynguin.ga.algorithms.archive as arch

    from pynguin.ga.fitness_metrics import normalise

    def update(self, solutions):
        updated = False
        for solution in solutions:
            solution_clone = solution.clone()
            for target in self._archive:
                fitness_value = solution_clone.get_fitness_for(target)
                result = solution_clone.get_last_execution_result()
                assert result is not None
                if result.has_test_exceptions():
                    chop_position = solution_clone.get_last_mutatable_statement()
                    assert chop_position is not None
                    solution_clone.test_case.chop(max(chop_position - 1, 0))  # seeded: drops the raising statement too
                covered_before = self._archive[target].is_covered
                updated |= self._archive[target].add_solution(1.0 - normalise(fitness_value), solution_clone)
                if not covered_before and self._archive[target].is_covered:
                    self._on_target_covered(target)
        return updated

    arch.MIOArchive.update = update


BREAKS = {k[4:]: v for k, v in globals().items() if k.startswith("brk_")}
REAL = {k for k, v in BREAKS.items() if (v.__doc__ or "").strip().startswith("REAL")}


def child(name, real):
    from vlib import core

    import checks.c13_archive as chk

    ctx = core.Ctx("C13", "quick", 0)
    ctx.scratch = pathlib.Path(tempfile.mkdtemp())
    try:
        if real:
            runs = [{"algo": a, "sut": s, "seed": 1000, "iterations": it, "local_search": False}
                    for a, s, it in (("MOSA", "c13_tri", 10), ("DYNAMOSA", "c13_stack", 10), ("MIO", "c13_tri", 20), ("MIO", "c13_text", 20))]
            chk.run_chunk({"name": "real", "runs": runs, "seeded_break": None if name == "none" else name}, ctx)
        else:
            if name != "none":
                BREAKS[name]()
            chk.run_chunk({"name": "directed"}, ctx)
            chk.run_chunk({"name": "synthetic", "seed": 0, "part": 0, "histories": 30}, ctx)
    finally:
        shutil.rmtree(ctx.scratch, ignore_errors=True)
    print(f"break={name} workload={'real' if real else 'synthetic'}: evals={ctx.evals} inconclusive={[x[:160] for x in ctx.inconclusive[:2]]} witness keys:")
    for k, v in sorted(ctx.extra.get("witness_counts", {}).items()):
        print(f"    {v:6d}  {k}")


if __name__ == "__main__":
    if len(sys.argv) > 3 and sys.argv[1] == "__child__":
        try:
            child(sys.argv[2], sys.argv[3] == "real")
        except Exception as e:  # a break may make the archive raise: that is also a way of being caught
            import traceback

            print(f"break={sys.argv[2]}: harness saw {type(e).__name__}: {e}\n{traceback.format_exc()[-600:]}")
    else:
        from vlib import core

        for n in sys.argv[1:] or ["none", *BREAKS]:
            kinds = ["synthetic", "real"] if (n in REAL or n == "none") else ["synthetic"]
            for kind in kinds:
                out = subprocess.run([sys.executable, __file__, "__child__", n, kind], capture_output=True, text=True, env=core.child_env())
                print(out.stdout.strip() or out.stderr[-800:])
