#!/venv/bin/python
"""Self-test of check C15: apply one realistic seeded break by monkeypatching (never editing /repo), run a part
of the check in-process and print the witness keys.  Usage: PYTHONHASHSEED=0 /venv/bin/python tools/selftest_c15.py [name ...]
"""

from __future__ import annotations

import pathlib
import shutil
import sys
import tempfile

sys.path.insert(0, str(pathlib.Path(__file__).resolve().parent.parent))

from vlib import core  # noqa: E402

import checks.c15_wellformed as chk  # noqa: E402


def brk_crossover_no_length_check():
    import pynguin.ga.operators.crossover as co

    def splice(parent, other, position1, position2):
        off = parent.test_case.clone()
        if off.size() > position1:
            off.remove_statements_batch(set(range(position1, off.size())))
        off.append_test_case_from(other.test_case, position2)
        parent.test_case = off  # seeded: accepted whatever the size
        parent.changed = True

    co.splice_test_case_chromosomes = splice


def brk_delete_leaves_dangling_reference():
    import pynguin.testcase.testfactory as tf

    def delete_statement_gracefully(test_case, position):
        if not (0 <= position < test_case.size()):
            return False
        test_case.remove_statement(position)  # seeded: no cascade to the readers of the deleted variable
        return True

    tf.TestFactory.delete_statement_gracefully = staticmethod(delete_statement_gracefully)


def brk_clone_forgets_var_counter():
    import pynguin.testcase.testcase as tc

    orig = tc.TestCase.clone

    def clone(self):
        c = orig(self)
        c._var_counter = len(c._statements)  # seeded: counter recomputed from the size instead of copied
        return c

    tc.TestCase.clone = clone


def brk_replace_statement_skips_registry():
    import pynguin.testcase.testcase as tc

    def replace_statement(self, index, stmt):
        self._code_cache = None
        self._statements[index] = stmt  # seeded: registry not rebuilt

    tc.TestCase.replace_statement = replace_statement


def brk_insert_mutation_without_guard():
    import pynguin.configuration as config
    import pynguin.ga.operators.mutation as mu

    from pynguin.utils import randomness

    def _mutation_insert(self, chromosome):
        changed = False
        alpha = config.configuration.search_algorithm.statement_insertion_probability
        exponent = 1
        while randomness.next_float() <= pow(alpha, exponent):  # seeded: no size test
            max_position = chromosome.get_last_mutatable_statement()
            max_position = 0 if max_position is None else max_position + 1
            position = chromosome.test_factory.insert_random_statement(chromosome.test_case, max_position)
            exponent += 1
            if 0 <= position < chromosome.size():
                changed = True
        return changed

    mu.TestCaseMutation._mutation_insert = _mutation_insert


def brk_crossover_no_rename():
    import pynguin.testcase.testcase as tc

    def append_test_case_from(self, other, start):
        for stmt in other.statements()[start:]:  # seeded: tail appended verbatim (no renaming, no head resolution)
            self.add_statement(tc.Statement(node=stmt.node, bound_variable=stmt.bound_variable, bound_type=stmt.bound_type,
                                            assertions=list(stmt.assertions), accessible=stmt.accessible))

    tc.TestCase.append_test_case_from = append_test_case_from


def brk_change_call_deps_after_position():
    """change_random_call inserts the dependency statements *after* the replaced statement."""
    import pynguin.testcase.testfactory as tf

    orig = tf.TestFactory._build_replacement_node

    def _build_replacement_node(self, test_case, replacement, cursor):
        pre = test_case.size()
        built = orig(self, test_case, replacement, cursor)
        n = test_case.size() - pre
        if built is not None and n:
            # move the freshly inserted dependency block behind the statement it feeds
            moved = [test_case.remove_statement(cursor) for _ in range(n)]
            for k, st in enumerate(moved):
                test_case.insert_statement(cursor + 1 + k, st)
        return built

    tf.TestFactory._build_replacement_node = _build_replacement_node


def brk_PROPOSED_FIX_insert_rollback():
    """Not a break: the proposed patch for length:insert-dependencies-overshoot (the check must go silent)."""
    import pynguin.configuration as config
    import pynguin.ga.operators.mutation as mu

    from pynguin.utils import randomness

    def _mutation_insert(self, chromosome):
        changed = False
        alpha = config.configuration.search_algorithm.statement_insertion_probability
        exponent = 1
        limit = config.configuration.search_algorithm.chromosome_length
        while randomness.next_float() <= pow(alpha, exponent) and chromosome.size() < limit:
            test_factory = chromosome.test_factory
            max_position = chromosome.get_last_mutatable_statement()
            max_position = 0 if max_position is None else max_position + 1
            backup = chromosome.test_case.clone()
            position = test_factory.insert_random_statement(chromosome.test_case, max_position)
            exponent += 1
            if chromosome.size() > limit:
                chromosome.test_case = backup
                continue
            if 0 <= position < chromosome.size():
                changed = True
        return changed

    mu.TestCaseMutation._mutation_insert = _mutation_insert


BREAKS = {k[4:]: v for k, v in globals().items() if k.startswith("brk_")}


def run(name):
    import subprocess

    if name != "__child__":
        out = subprocess.run([sys.executable, __file__, "__child__", name], capture_output=True, text=True,
                             env=core.child_env())
        print(out.stdout.strip() or out.stderr[-800:])
        return


def child(name):
    if name != "none":
        BREAKS[name]()
    ctx = core.Ctx("C15", "quick", 0)
    ctx.scratch = pathlib.Path(tempfile.mkdtemp())
    try:
        chk.run_chunk({"name": "directed", "histories": 1}, ctx)
        chk.run_chunk({"name": "random", "seed": 0, "part": 0, "histories": 6}, ctx)
    finally:
        shutil.rmtree(ctx.scratch, ignore_errors=True)
    keys = ctx.extra.get("witness_counts", {})
    print(f"break={name}: evals={ctx.evals} inconclusive={ctx.inconclusive[:1]} witness keys:")
    for k, v in sorted(keys.items()):
        print(f"    {v:6d}  {k}")
    raised = {k: v for k, v in ctx.anomalies.items() if k.startswith("raised:")}
    if raised:
        print("    anomalies(raised):", raised)


if __name__ == "__main__":
    if len(sys.argv) > 2 and sys.argv[1] == "__child__":
        child(sys.argv[2])
    else:
        for n in sys.argv[1:] or ["none", *BREAKS]:
            run(n)
