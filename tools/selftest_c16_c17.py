#!/venv/bin/python
"""Self-test of checks C16 and C17: realistic seeded breaks, applied by monkeypatching inside the driver child
(VERIF_BREAK handled by vlib/monitors/rngtap.py and vlib/monitors/budget.py; /repo is never edited).

Usage: /venv/bin/python tools/selftest_c16_c17.py [c16|c17|<break name> ...]     (default: all)
For every break a small chunk of the check's own workload is run through the check's run_chunk with spec["seeded_break"];
the break counts as caught when a witness with one of the expected key prefixes is produced.  The unbroken control chunk
must produce no witness outside the known mechanisms of the unchanged tree.
"""

from __future__ import annotations

import pathlib
import shutil
import sys
import time

from concurrent.futures import ThreadPoolExecutor

VERIF = pathlib.Path(__file__).resolve().parent.parent
sys.path.insert(0, str(VERIF))

from vlib import core  # noqa: E402

# mechanisms of the unchanged tree (not caused by a seeded break)
C16_BASELINE = ("diverges-at:testcase.py:TestCase._resolve_head_references", "timing:timeout-flag-differs:empty-test")

C16_CASES = [
    {"sut": "tri", "algo": "DYNAMOSA", "seed": 11, "budget": {"maximum_iterations": 5}, "ag": "NONE", "hashseeds": ["0", "1"]},
    {"sut": "queue_", "algo": "WHOLE_SUITE", "seed": 12, "budget": {"maximum_iterations": 5}, "ag": "NONE", "hashseeds": ["1", "2"]},
    {"sut": "account", "algo": "MIO", "seed": 13, "budget": {"maximum_iterations": 40}, "ag": "NONE", "hashseeds": ["0", "123"]},
    {"sut": "lastcall", "algo": "RANDOM", "seed": 14, "budget": {"maximum_iterations": 30}, "ag": "SIMPLE", "hashseeds": ["2", "random"]},
]
C16_BREAKS = {
    # name -> (expected key prefixes, cases)
    "unseeded-random-in-mutation": (("diverges-at:mutation.py", "diverges-at:testcasechromosome.py", "diverges-at:testfactory.py", "diverges-at:"), C16_CASES[:3]),
    "export-iterates-str-set": (("output-order:import",), C16_CASES),
    "variables-of-type-via-set": (("same-draws-different-test:", "diverges-at:"), C16_CASES[:3]),
    "time-dependent-decision": (("diverges-at:",), C16_CASES[:3]),
}

C17_RUNS = [
    {"algo": "MOSA", "sut": "tri", "seed": 21, "budget": {"maximum_iterations": 3}},
    {"algo": "MIO", "sut": "queue_", "seed": 22, "budget": {"maximum_test_executions": 9}},
    {"algo": "RANDOM", "sut": "lastcall", "seed": 23, "budget": {"maximum_statement_executions": 25}},
    {"algo": "WHOLE_SUITE", "sut": "tri", "seed": 24, "budget": {"maximum_iterations": 3}},
    {"algo": "RANDOM_TEST_SUITE_SEARCH", "sut": "queue_", "seed": 25, "budget": {"maximum_iterations": 3}},
    {"algo": "RANDOM_TEST_CASE_SEARCH", "sut": "tri", "seed": 26, "budget": {"maximum_test_executions": 7}},
    {"algo": "DYNAMOSA", "sut": "lastcall", "seed": 27, "budget": {"maximum_iterations": 2, "maximum_test_executions": 400}},
]
C17_BREAKS = {
    "maxexec-gt": (("iteration-started-after:max_test_executions:",), [C17_RUNS[1], C17_RUNS[5]]),
    "maxstmt-gt": (("iteration-started-after:max_statement_executions:",), [C17_RUNS[2]]),
    "maxiter-gt": (("iteration-started-after:max_iterations:", "completed-iterations-exceed:max_iterations:"), [C17_RUNS[0], C17_RUNS[4], C17_RUNS[6]]),
    "check-every-second-iteration": (("iteration-started-after:max_iterations:", "completed-iterations-exceed:max_iterations:"),
                                     [C17_RUNS[0], C17_RUNS[3], C17_RUNS[4]]),
    "exec-counted-after": (("iteration-started-after:max_test_executions:",), [C17_RUNS[1], C17_RUNS[5]]),
}


def run_one(check_id, name, expected, payload):
    import importlib

    mod = importlib.import_module("checks.c16_determinism" if check_id == "C16" else "checks.c17_budget")
    ctx = core.Ctx(check_id, "quick", 0)
    ctx.scratch = core.make_scratch("pynverif-selftest-")
    t0 = time.time()
    try:
        spec = {"name": "selftest", "seeded_break": None if name == "control" else name}
        spec["cases" if check_id == "C16" else "runs"] = payload
        mod.run_chunk(spec, ctx)
    finally:
        shutil.rmtree(ctx.scratch, ignore_errors=True)
    keys = sorted({w["key"] for w in ctx.witnesses})
    if name == "control":
        baseline = C16_BASELINE if check_id == "C16" else ()
        extra = [k for k in keys if not k.startswith(baseline)] if baseline else keys
        ok = not extra and ctx.evals > 0
        verdict = "SILENT" if ok else f"UNEXPECTED {extra}"
    else:
        baseline = C16_BASELINE if check_id == "C16" else ()
        hit = [k for k in keys if k.startswith(tuple(expected)) and k not in baseline]
        ok = bool(hit)
        verdict = f"CAUGHT {hit}" if ok else "MISSED"
    print(f"[{check_id}] {name:32s} {verdict}  (evals {ctx.evals}, all keys {keys}, inconclusive {len(ctx.inconclusive)}, {time.time() - t0:.0f}s)", flush=True)
    for why in ctx.inconclusive[:3]:
        print(f"      inconclusive: {why[:300]}")
    return ok


def main(argv):
    want = set(argv)
    jobs = []
    if not want or "c16" in want or want & set(C16_BREAKS):
        if not want or "c16" in want:
            jobs.append(("C16", "control", (), C16_CASES))
        for name, (expected, cases) in C16_BREAKS.items():
            if not want or "c16" in want or name in want:
                jobs.append(("C16", name, expected, cases))
    if not want or "c17" in want or want & set(C17_BREAKS):
        if not want or "c17" in want:
            jobs.append(("C17", "control", (), C17_RUNS))
        for name, (expected, runs) in C17_BREAKS.items():
            if not want or "c17" in want or name in want:
                jobs.append(("C17", name, expected, runs))
    with ThreadPoolExecutor(max_workers=8) as ex:
        results = list(ex.map(lambda j: run_one(*j), jobs))
    bad = [j[:2] for j, ok in zip(jobs, results) if not ok]
    print("SELFTEST", "OK" if not bad else f"FAILED {bad}")
    return 0 if not bad else 1


if __name__ == "__main__":
    sys.exit(main(sys.argv[1:]))
