#!/venv/bin/python
"""Self-test of the generated-file checks C18, C19, C24.

Every seeded break is a monkeypatch applied *inside the driver child* of each pipeline run (``VERIF_BREAK`` ->
``vlib/monitors/genfile_breaks.py``; /repo is never edited).  For each break the oracle of the check is run in-process on a few
fixed cases (no evidence file is written) and the witness keys are compared with the keys of the unchanged tree on the same
cases: a break is CAUGHT when it produces at least one of its expected key prefixes that the baseline does not produce.
The two ``fix_*`` entries emulate the proposed patches of the defects found on the unchanged tree: the corresponding keys must
disappear.

Usage: /venv/bin/python tools/selftest_c18_c19_c24.py [C18|C19|C24] [break ...]     (runs ~70 pipelines, 8 workers in parallel)
"""

from __future__ import annotations

import importlib
import json
import os
import subprocess
import sys

from concurrent.futures import ThreadPoolExecutor
from pathlib import Path

VERIF = Path(__file__).resolve().parent.parent
sys.path.insert(0, str(VERIF))

CASES = {
    "C18": [dict(sut="tri", seed=0, ag="SIMPLE", no_xfail=True), dict(sut="floats", seed=0, ag="SIMPLE"), dict(sut="safefloats", seed=0, ag="SIMPLE"),
            dict(sut="queue_", seed=86109, ag="SIMPLE", no_xfail=True, direction="FORWARD"), dict(sut="account", seed=0, ag="SIMPLE"),
            # stale assertion after statement minimisation (still present at 73cd0bc): `var_0.__exit__()` removed, `assert var_0.log == [...]` kept
            dict(sut="printer", seed=53428, ag="MUTATION_ANALYSIS", direction="FORWARD", iters=3)],
    "C19": [dict(sut="lastcall", seed=0, ag="SIMPLE"), dict(sut="queue_", seed=0, ag="SIMPLE", no_xfail=True),
            dict(sut="lastcall", seed=0, ag="SIMPLE", post_process=False)],
    "C24": [dict(sut="queue_", seed=0, ag="SIMPLE", no_xfail=True), dict(sut="floats", seed=0, ag="SIMPLE"), dict(sut="tri", seed=0, ag="NONE"),
            dict(sut="queue_", seed=0, ag="SIMPLE")],
}
MODULES = {"C18": "checks.c18_generated_files_pass", "C19": "checks.c19_assertions_survive", "C24": "checks.c24_seed_roundtrip"}

# break -> (description, expected key prefixes)    "!prefix" = this key of the baseline must DISAPPEAR (proposed patch);
#                                                  "~prefix" = an anomaly (not a witness) with this prefix must appear, "~!prefix" must not
BREAKS = {
    "C18": {
        "writer_omits_import_sys": ("the written file lacks `import sys`", ["collection-error:NameError", "fails:NameError:sys-not-imported"]),
        "export_flips_eq": ("exporter renders == of object assertions as !=", ["fails:AssertionError:"]),
        "xfail_on_passing_test": ("passing tests are marked xfail(strict=True)", ["xfail-strict-passed"]),
        "no_exception_wrapping": ("writer never wraps raising statements / never marks xfail", ["fails:ValueError", "fails:TypeError", "fails:"]),
        "approx_wrong_value": ("float assertions rendered against value+1", ["fails:AssertionError:float-approx"]),
        "filter_execution_times_out": ("environment, not code: every assertion-filtering execution times out (machine load) -> the filter "
                                       "keeps all unverified assertions; reported as an anomaly, not a witness", ["~after-execution-timeouts:fails:AssertionError:attr-eq-int"]),
        "filter_execution_times_out,fix_filter": ("same environment + proposed fail-closed patch of the assertion filter: nothing fails", ["~!after-execution-timeouts:"]),
        "fix_needs_pytest": ("proposed patch: import pytest whenever the rendered functions reference it", ["!fails:NameError:pytest-not-imported"]),
        "fix_ruv,fix_needs_pytest,fix_minimizer": ("all proposed patches (remove_unused_variables and needs_pytest are in the tree since 6ff8549; "
                                                   "minimiser keeps statements that touch asserted objects)",
                                                   ["!fails:NameError:pytest-not-imported", "!fails:AssertionError:var-eq-int", "!fails:AssertionError:attr-eq-collection"]),
    },
    "C19": {
        "export_drops_last_assertion": ("exporter forgets the last assertion of a test function", ["lost:export:"]),
        "minimize_strips_first_assertion": ("_minimize silently deletes the first assertion of every test", ["lost:minimize:"]),
        "no_exception_wrapping": ("writer emits raising statements bare, no xfail marker", ["lost:export:exception-assertion"]),
        "fix_ruv": ("proposed patch of TestCase.remove_unused_variables", ["!lost:remove_unused_variables:"]),
    },
    "C24": {
        "deserializer_drops_raises": ("seed parser drops `with pytest.raises` blocks", ["lost:pytest-raises-block"]),
        "deserializer_drops_raw_asserts": ("seed parser drops asserts it cannot lift", ["lost:assert:float-approx", "lost:assert:"]),
        "deserializer_keyword_is_a_read": ("call keywords count as variable reads: statements dropped", ["lost:assign:call", "lost:expr:call", "lost:function:"]),
        "deserializer_lifts_len_off_by_one": ("lifted len assertion stored with n+1", ["added:assert:len", "lost:assert:len"]),
        "fix_ruv": ("proposed patch of remove_unused_variables (keeps `accessible`)", ["!changed:xfail-marker->pytest.raises"]),
        "fix_ruv,fix_deserializer": ("proposed patches of remove_unused_variables and of the seed parser (lambda parameters, assertion attached "
                                     "to the preceding statement)", ["!changed:xfail-marker->pytest.raises", "!moved:assert:", "!lost:assign:lambda"]),
    },
}


def worker(check, brk):
    """Child: run the check's oracle on the fixed cases under VERIF_BREAK=brk, print the witness counts as JSON."""
    from vlib import core, genfiles

    mod = importlib.import_module(MODULES[check])
    ctx = core.Ctx(mod.ID, "quick", 0)
    ctx.scratch = core.make_scratch()
    try:
        mod.run_chunk({"name": "cases", "cases": [genfiles.case(**c) for c in CASES[check]]}, ctx)
    finally:
        import shutil

        shutil.rmtree(ctx.scratch, ignore_errors=True)
    r = ctx.to_result()
    print("RESULT " + json.dumps({"keys": r["extra"].get("witness_counts", {}), "evals": r["evals"], "inconclusive": r["inconclusive"][:3],
                                  "anomalies": r["anomalies"]}))


def run(check, brk):
    env = dict(os.environ, VERIF_BREAK=brk, PYTHONHASHSEED="0", SE2P_PYNGUIN_VERIF="1")
    env.pop("VERIF_GENFILES_CACHE", None)
    cp = subprocess.run([sys.executable, str(Path(__file__).resolve()), "--worker", check, brk], env=env, capture_output=True, text=True, cwd=str(VERIF))
    for line in cp.stdout.splitlines():
        if line.startswith("RESULT "):
            return json.loads(line[7:])
    return {"keys": {}, "evals": 0, "inconclusive": [f"worker died rc={cp.returncode}: {cp.stderr[-500:]}"], "anomalies": {}}


def main(argv):
    checks = [a for a in argv if a in CASES] or list(CASES)
    only = [a for a in argv if a not in CASES]
    jobs = [(c, "") for c in checks] + [(c, b) for c in checks for b in BREAKS[c] if not only or b in only]
    with ThreadPoolExecutor(max_workers=8) as ex:
        results = dict(zip(jobs, ex.map(lambda j: run(*j), jobs)))
    not_caught = []
    for c in checks:
        base = results[(c, "")]
        print(f"== {c} unchanged tree on {len(CASES[c])} cases: evals={base['evals']} keys={base['keys']} inconclusive={base['inconclusive']}")
        for b, (desc, expected) in BREAKS[c].items():
            if (c, b) not in results:
                continue
            res = results[(c, b)]
            new = {k: v for k, v in res["keys"].items() if k not in base["keys"]}
            gone = [k for k in base["keys"] if k not in res["keys"]]
            ok = True
            na = []
            for e in expected:
                if e.startswith("!"):
                    if not any(k.startswith(e[1:]) for k in base["keys"]):
                        na.append(e[1:])  # the unchanged tree no longer shows this key (the patch was committed): nothing to remove
                    ok = ok and not any(k.startswith(e[1:]) for k in res["keys"])
            for e in expected:
                if e.startswith("~!"):
                    ok = ok and not any(k.startswith(e[2:]) for k in res["anomalies"])
                elif e.startswith("~"):
                    ok = ok and any(k.startswith(e[1:]) for k in res["anomalies"])
            pos = [e for e in expected if not e.startswith(("!", "~"))]
            if pos:
                ok = ok and any(k.startswith(e) for k in new for e in pos)
            if res["inconclusive"] or not res["evals"]:
                ok = False
            print(f"  {'CAUGHT ' if ok else 'MISSED '} {b}: {desc}\n      new keys: {new}\n      gone keys: {gone}\n      anomalies: {res['anomalies']}"
                  + (f"\n      already absent on this tree: {na}" if na else "")
                  + (f"\n      inconclusive: {res['inconclusive']}" if res["inconclusive"] else ""))
            if not ok:
                not_caught.append((c, b))
    print("NOT CAUGHT:", not_caught if not_caught else "none")
    return 1 if not_caught else 0


if __name__ == "__main__":
    if len(sys.argv) >= 3 and sys.argv[1] == "--worker":
        worker(sys.argv[2], sys.argv[3] if len(sys.argv) > 3 else "")
    else:
        sys.exit(main(sys.argv[1:]))
