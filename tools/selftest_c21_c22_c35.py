#!/venv/bin/python
"""Self-test of checks C21, C22, C35: apply one realistic seeded break by monkeypatching (never editing /repo) and confirm that
the check fires with a mechanism key it does not produce on the unchanged tree.

In-process parts (C21 kill maps / synthetic result matrices) are broken in a child interpreter of this script; pipeline parts
are broken inside the pyndriver child through the environment variable VERIF_BREAK, which the monitors
(vlib/monitors/assertion_gen.py, minimize.py, report.py) read in install().

Usage: PYTHONHASHSEED=0 /venv/bin/python tools/selftest_c21_c22_c35.py [c21 | c22 | c35 | c21:<break> ...]
Exit code 0 iff every selected break was caught.
"""

from __future__ import annotations

import importlib
import json
import pathlib
import shutil
import subprocess
import sys

from concurrent.futures import ThreadPoolExecutor

VERIF = pathlib.Path(__file__).resolve().parent.parent
sys.path.insert(0, str(VERIF))

from vlib import core  # noqa: E402

T = "test_case_output."

# break name -> (where, expected key prefixes)
C21_BREAKS = {
    "greedy-drops-needed": ("both", ["select:kill-lost", "kill-lost:assertion-minimization-on"]),
    "index-shift": ("both", ["select:selected-key-not-in-map", "kill-lost:assertion-minimization-on"]),
    "timeouts-count-as-kills": ("both", ["score:differs-from-recomputation:timeouts-counted-as-kills", "score:out-of-range", "score:NumberOfKilledMutants-differs"]),
    "score-divisor-includes-timeouts": ("both", ["score:differs-from-recomputation:timeouts-kept-in-divisor"]),
    "filtering-skipped": ("pipeline", ["kept-assertion-does-not-hold:failed:ObjectAssertion"]),
    "filter-ignores-errors-when-failed": ("pipeline", ["kept-assertion-does-not-hold:error:"]),
    "filter-ignores-errors": ("pipeline", ["kept-assertion-does-not-hold:error:"]),
}
C21_RUNS = [
    {"sut": "tickets", "algorithm": "DYNAMOSA", "seed": 79, "iterations": 6, "assertion_generation": "SIMPLE",
     "config": {T + "filter_assertions_in_subprocess": False}},
    {"sut": "tickets", "algorithm": "DYNAMOSA", "seed": 97, "iterations": 6, "assertion_generation": "MUTATION_ANALYSIS",
     "config": {T + "assertion_minimization": True, T + "filter_assertions_in_subprocess": False}},
    {"sut": "tri", "algorithm": "DYNAMOSA", "seed": 3, "iterations": 6, "assertion_generation": "MUTATION_ANALYSIS",
     "config": {T + "assertion_minimization": True, T + "filter_assertions_in_subprocess": False}},
    {"sut": "looper", "algorithm": "DYNAMOSA", "seed": 59, "iterations": 4, "assertion_generation": "MUTATION_ANALYSIS",
     "config": {T + "assertion_minimization": True, T + "maximum_mutants": 14, T + "filter_assertions_in_subprocess": False}},
    {"sut": "queue_", "algorithm": "MOSA", "seed": 71, "iterations": 6, "assertion_generation": "SIMPLE",
     "config": {T + "filter_assertions_in_subprocess": False}},
]

C22_BREAKS = {
    "wrong-direction": ["coverage-dropped:"],
    "loose-tolerance": ["coverage-dropped:"],
    "protection-disabled": ["asserted-statement-lost:iterative-forward:protected-statement-removed",
                            "asserted-statement-lost:iterative-backward:protected-statement-removed"],
    "statement-rewritten": ["new-statement-appeared:"],
}
# judged on the in-process directed part (long chains, constant coverage function: every chain is coverage-redundant); real runs on
# the `chains` SUT catch it only opportunistically (suite-level redundancy is not per-test redundancy)
C22_DIRECTED_BREAKS = {
    "dependencies-one-level": ["asserted-statement-lost:iterative-forward:protected-statement-removed",
                               "asserted-statement-lost:iterative-backward:protected-statement-removed",
                               "asserted-statement-lost:combined-visitor:protected-statement-removed"],
}
# proposed repairs (monkeypatched inside the driver child): the named witness key of the unchanged tree must disappear,
# (the mechanisms are attributed independently: see the printed key sets)
C22_DIRECTED_FIXES = {  # judged on the in-process directed part (hand-built tests through the real visitors)
    "PROPOSED_FIX_protect-assertion-carriers": ["asserted-statement-lost:combined-visitor:assertion-carrier-removed"],
    "PROPOSED_FIX_protect-dotted-sources": ["asserted-statement-lost:iterative-forward:dotted-source-unprotected",
                                            "asserted-statement-lost:iterative-backward:dotted-source-unprotected"],
}
C22_FIXES = {
    "PROPOSED_FIX_minimiser-compares-covered-goals": ["coverage-dropped:CASE", "minimize-raises:TypeError:restore-path"],
    "PROPOSED_FIX_post-check-recomputes,PROPOSED_FIX_restore-path-emulated": ["coverage-dropped:CASE", "minimize-raises:TypeError:restore-path"],
    "PROPOSED_FIX_remove-unused-keeps-asserted": ["asserted-statement-lost:remove_unused_variables"],
    "PROPOSED_FIX_combined-protection": ["asserted-statement-lost:combined-ignores-protection"],
}
C22_RUNS = [
    {"sut": "chains", "algorithm": "DYNAMOSA", "seed": 500, "iterations": 8, "assertion_generation": "SIMPLE", "strategy": "CASE", "direction": "FORWARD"},
    {"sut": "chains", "algorithm": "MOSA", "seed": 501, "iterations": 8, "assertion_generation": "SIMPLE", "strategy": "CASE", "direction": "BACKWARD"},
    {"sut": "chains", "algorithm": "MOSA", "seed": 504, "iterations": 8, "assertion_generation": "SIMPLE", "strategy": "COMBINED", "direction": "FORWARD"},
    {"sut": "tri", "algorithm": "DYNAMOSA", "seed": 100, "iterations": 6, "assertion_generation": "SIMPLE", "strategy": "CASE", "direction": "FORWARD"},
    {"sut": "queue_", "algorithm": "MOSA", "seed": 101, "iterations": 6, "assertion_generation": "SIMPLE", "strategy": "CASE", "direction": "BACKWARD",
     "coverage_metrics": ["BRANCH", "LINE"]},
    {"sut": "account", "algorithm": "DYNAMOSA", "seed": 102, "iterations": 6, "assertion_generation": "SIMPLE", "strategy": "SUITE", "direction": "FORWARD"},
    {"sut": "lastcall", "algorithm": "DYNAMOSA", "seed": 103, "iterations": 6, "assertion_generation": "SIMPLE", "strategy": "COMBINED", "direction": "FORWARD"},
    {"sut": "account", "algorithm": "DYNAMOSA", "seed": 168789, "iterations": 6, "assertion_generation": "SIMPLE", "strategy": "CASE", "direction": "BACKWARD"},
    {"sut": "queue_", "algorithm": "RANDOM", "seed": 831077, "iterations": 4, "assertion_generation": "SIMPLE", "strategy": "SUITE", "direction": "FORWARD",
     "coverage_metrics": ["BRANCH", "LINE"]},
]

C35_BREAKS = {
    "line-annotation-either-or": ["annotation:branches-on-line-differ", "annotations:sum-of-branches-differs-from-total"],
    "one-code-object-per-line": ["annotation:branchless-on-line-differ", "totals:branchless-code-objects-count-differs"],
    "branchless-twice": ["totals:branchless-code-objects-count-differs", "annotation:branchless-on-line-differ"],
    "branchless-twice-totals-only": ["annotations:sum-of-branchless-differs-from-total", "totals:branchless-code-objects-count-differs"],
    "line-ids-as-numbers": ["annotation:line-shown-covered-but-suite-does-not-cover-it", "annotation:line-covered-by-suite-but-shown-uncovered",
                            "annotation:line-existence-differs"],
    "stale-result": ["totals:branch-coverage-differs-from-reference:attached-results-differ-from-reexecution",
                     "totals:line-coverage-differs-from-reference:attached-results-differ-from-reexecution"],
    "false-branch-ignored": ["annotation:branches-on-line-differ", "annotations:sum-of-branches-differs-from-total"],
}
C35_RUNS = [
    {"sut": "shared_lines", "algorithm": "MOSA", "seed": 360, "iterations": 5, "metrics": ["BRANCH", "LINE"], "strategy": "CASE", "assertion_generation": "NONE"},
    {"sut": "oneline_first", "algorithm": "DYNAMOSA", "seed": 404, "iterations": 3, "metrics": ["BRANCH"], "strategy": "CASE", "assertion_generation": "NONE"},
    {"sut": "tri", "algorithm": "MOSA", "seed": 350, "iterations": 3, "metrics": ["BRANCH", "LINE"], "strategy": "CASE", "assertion_generation": "NONE"},
    {"sut": "shapes", "algorithm": "WHOLE_SUITE", "seed": 351, "iterations": 5, "metrics": ["BRANCH", "LINE"], "strategy": "CASE", "assertion_generation": "NONE"},
    {"sut": "queue_", "algorithm": "RANDOM", "seed": 352, "iterations": 3, "metrics": ["BRANCH", "LINE"], "strategy": "NONE", "assertion_generation": "NONE"},
]


def keys_of(ctx):
    return dict(ctx.extra.get("witness_counts", {}))


def run_pipeline_part(check_mod_name, runs, brk):
    mod = importlib.import_module(check_mod_name)
    ctx = core.Ctx(mod.ID, "selftest", 0)
    ctx.scratch = core.make_scratch("pynverif-selftest-")
    try:
        spec = {"name": "real", "runs": runs}
        if brk:
            spec["env_extra"] = {"VERIF_BREAK": brk}
        mod.run_chunk(spec, ctx)
    finally:
        shutil.rmtree(ctx.scratch, ignore_errors=True)
    return keys_of(ctx), list(ctx.inconclusive)


def c21_in_process_child(brk):
    """Runs in a child interpreter: apply the break, run the directed in-process part and a slice of random kill maps."""
    import random

    from vlib.monitors import assertion_gen as mon

    if brk != "-":
        mon.BREAKS[brk]()
    c21 = importlib.import_module("checks.c21_assertion_minimization")
    ctx = core.Ctx("C21", "selftest", 0)
    ctx.scratch = core.make_scratch("pynverif-selftest-")
    try:
        c21.directed_in_process(ctx)
        rng = random.Random(7)
        for _ in range(1500):
            km, sh = c21.gen_kill_map(rng)
            c21.check_kill_map(ctx, km, sh)
        for _ in range(150):
            c21.synthetic_ma(ctx, rng)
    finally:
        shutil.rmtree(ctx.scratch, ignore_errors=True)
    print("KEYS " + json.dumps(keys_of(ctx)))


def c21_in_process(brk):
    cp = subprocess.run([core.PY, str(pathlib.Path(__file__).resolve()), "--c21-child", brk or "-"], env=core.child_env(), capture_output=True,
                        text=True, timeout=900, cwd=str(VERIF))
    for line in cp.stdout.splitlines():
        if line.startswith("KEYS "):
            return json.loads(line[5:]), []
    return {}, [f"child died rc={cp.returncode}: {cp.stderr[-500:]}"]


def c22_directed_child(brk):
    import os

    if brk != "-":
        os.environ["VERIF_BREAK"] = brk
    c22 = importlib.import_module("checks.c22_minimization_coverage")
    ctx = core.Ctx("C22", "selftest", 0)
    ctx.scratch = core.make_scratch("pynverif-selftest-")
    try:
        c22.directed_visitors(ctx)
    finally:
        shutil.rmtree(ctx.scratch, ignore_errors=True)
    print("KEYS " + json.dumps(keys_of(ctx)))


def c22_directed(brk):
    cp = subprocess.run([core.PY, str(pathlib.Path(__file__).resolve()), "--c22-child", brk or "-"], env=core.child_env(), capture_output=True,
                        text=True, timeout=900, cwd=str(VERIF))
    for line in cp.stdout.splitlines():
        if line.startswith("KEYS "):
            return json.loads(line[5:]), []
    return {}, [f"child died rc={cp.returncode}: {cp.stderr[-500:]}"]


def judge(name, brk, got, baseline, expected, incon):
    new = {k: v for k, v in got.items() if v > baseline.get(k, 0)}  # a new mechanism key, or more witnesses of a known one
    hit = [k for k in new if any(k.startswith(p) for p in expected)]
    status = "CAUGHT" if hit else "MISSED"
    print(f"[{name}] break {brk:38s} {status}  new keys: {json.dumps(new)}" + (f"  inconclusive: {incon[:2]}" if incon else ""))
    return bool(hit)


def main(argv):
    sel = argv or ["c21", "c22", "c35"]

    def wanted(check, brk):
        return check in sel or f"{check}:{brk}" in sel

    jobs = {}
    with ThreadPoolExecutor(max_workers=12) as ex:
        if any(s.startswith("c21") for s in sel):
            jobs[("c21", "in", None)] = ex.submit(c21_in_process, None)
            jobs[("c21", "pipe", None)] = ex.submit(run_pipeline_part, "checks.c21_assertion_minimization", C21_RUNS, None)
            for b, (where, _) in C21_BREAKS.items():
                if wanted("c21", b):
                    if where in ("both", "in"):
                        jobs[("c21", "in", b)] = ex.submit(c21_in_process, b)
                    jobs[("c21", "pipe", b)] = ex.submit(run_pipeline_part, "checks.c21_assertion_minimization", C21_RUNS, b)
        if any(s.startswith("c22") for s in sel):
            jobs[("c22", "pipe", None)] = ex.submit(run_pipeline_part, "checks.c22_minimization_coverage", C22_RUNS, None)
            jobs[("c22", "in", None)] = ex.submit(c22_directed, None)
            for b in list(C22_DIRECTED_FIXES) + list(C22_DIRECTED_BREAKS):
                if wanted("c22", b):
                    jobs[("c22", "in", b)] = ex.submit(c22_directed, b)
            for b in list(C22_BREAKS) + list(C22_FIXES):
                if wanted("c22", b):
                    jobs[("c22", "pipe", b)] = ex.submit(run_pipeline_part, "checks.c22_minimization_coverage", C22_RUNS, b)
        if any(s.startswith("c35") for s in sel):
            jobs[("c35", "pipe", None)] = ex.submit(run_pipeline_part, "checks.c35_coverage_report", C35_RUNS, None)
            for b in C35_BREAKS:
                if wanted("c35", b):
                    jobs[("c35", "pipe", b)] = ex.submit(run_pipeline_part, "checks.c35_coverage_report", C35_RUNS, b)
        results = {k: f.result() for k, f in jobs.items()}
    ok = True
    for (check, part, brk), (got, incon) in sorted(results.items(), key=lambda kv: (kv[0][0], kv[0][1], kv[0][2] or "")):
        if brk is None:
            print(f"[{check}/{part}] unchanged tree: keys {json.dumps(got)}" + (f"  inconclusive: {incon[:2]}" if incon else ""))
            continue
        baseline = results[(check, part, None)][0]
        fixes = {**C22_FIXES, **C22_DIRECTED_FIXES}
        if check == "c22" and brk in fixes:
            gone = [k for k in fixes[brk] if k in baseline and k not in got]
            # (other keys may legitimately change too: e.g. keeping asserted statements also prevents the goal-swapping removal)
            good = len(gone) == len([k for k in fixes[brk] if k in baseline]) and bool(gone)
            print(f"[{check}/{part}] fix   {brk:38s} {'KEY GONE' if good else 'NOT EFFECTIVE'}  keys now: {json.dumps(got)}")
            ok &= good
            continue
        expected = {"c21": lambda b: C21_BREAKS[b][1], "c22": lambda b: {**C22_BREAKS, **C22_DIRECTED_BREAKS}[b], "c35": lambda b: C35_BREAKS[b]}[check](brk)
        ok &= judge(f"{check}/{part}", brk, got, baseline, expected, incon)
    print("SELFTEST", "PASSED" if ok else "FAILED")
    return 0 if ok else 1


if __name__ == "__main__":
    if len(sys.argv) == 3 and sys.argv[1] == "--c21-child":
        c21_in_process_child(sys.argv[2])
    elif len(sys.argv) == 3 and sys.argv[1] == "--c22-child":
        c22_directed_child(sys.argv[2])
    else:
        sys.exit(main(sys.argv[1:]))
