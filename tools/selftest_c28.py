#!/venv/bin/python
"""Self-test of check C28: every seeded break is a monkeypatch applied inside the check's worker processes through the
environment variable VERIF_BREAK (see checks/c28_mutation.py:_apply_break; /repo is never edited).  The directed chunk is
run under each break and the witness keys are printed.  NOTE: this overwrites evidence/C28.json; re-run the check afterwards.
Usage: /venv/bin/python tools/selftest_c28.py [name ...]
"""

from __future__ import annotations

import json
import os
import pathlib
import subprocess
import sys

VERIF = pathlib.Path(__file__).resolve().parent.parent
BREAKS = {
    "no-restore-field": "an operator forgets to put the original child node back (Slice children)",
    "in-place-bool": "BooleanLiteralReplacement flips the original Constant in place",
    "extra-change-elsewhere": "ReturnValueReplacement also rewrites an unrelated sibling statement",
    "count-off-by-one": "mutation_count() of a capped mutator is one too large",
    "count-post-truncation": "mutation_count() counts the (capped / higher-order) yields instead of the full enumeration",
    "regenerated-differs": "regenerating a selected mutation (sampled / reordered path) builds a different mutant",
    "hom-finish-skips-first": "HighOrderMutator._finish_generators does not exhaust the first generator",
}

if __name__ == "__main__":
    failed = []
    for name in sys.argv[1:] or BREAKS:
        env = dict(os.environ, VERIF_BREAK=name, PYTHONHASHSEED="0")
        cp = subprocess.run(["/venv/bin/python", str(VERIF / "run_check.py"), "C28", "--tier", "quick", "--only", '"directed"'],
                            env=env, capture_output=True, text=True, cwd=str(VERIF))
        keys = json.loads((VERIF / "evidence" / "C28.json").read_text())["coverage"]["witness_counts_by_mechanism"]
        print(f"{name}: rc={cp.returncode} {BREAKS.get(name, '')}\n    -> {keys}")
        if not keys:
            failed.append(name)
    print("NOT CAUGHT:", failed if failed else "none")
    sys.exit(1 if failed else 0)
