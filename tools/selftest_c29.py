#!/venv/bin/python
"""Self-test of check C29: seeded breaks (and the two proposed repairs) are applied inside the child process that runs the
operation sequences, selected through VERIF_BREAK (see checks/c29_fs_isolation.py:_apply_break; /repo is never edited).
Because the unchanged tree already violates C29, a break counts as caught when it produces witness keys that the unchanged
tree does not produce.  NOTE: this overwrites evidence/C29.json; re-run the check afterwards.
Usage: /venv/bin/python tools/selftest_c29.py [name ...]
"""

from __future__ import annotations

import json
import os
import pathlib
import subprocess
import sys

VERIF = pathlib.Path(__file__).resolve().parent.parent
PATCHES = VERIF / "tools" / "proposed_patches"
BREAKS = {
    "rename-not-tracked": "os.rename / os.replace are not wrapped",
    "no-permission-check": "destructive operations on non-isolated paths are let through",
    "cleanup-skips-dirs": "the exit cleanup only removes files",
    "prefix-guard": "'below something created' decided by a bare string prefix: out.txt / out_dir become deletable once 'out' was created",
    "prefix-cleanup": "the exit cleanup also removes every path whose name merely starts with a created path (app.log.1 for app.log)",
}


def run(env_extra):
    env = dict(os.environ, PYTHONHASHSEED="0", **env_extra)
    subprocess.run(["/venv/bin/python", str(VERIF / "run_check.py"), "C29", "--tier", "quick"], env=env, capture_output=True, text=True, cwd=str(VERIF))
    ev = json.loads((VERIF / "evidence" / "C29.json").read_text())
    return ev["coverage"]["witness_counts_by_mechanism"], ev["coverage"]["verdict"]


def patched_copy(diff_name, tmp):
    src = pathlib.Path("/repo/src/pynguin/utils/fs_isolation.py").read_text()
    out = pathlib.Path(tmp) / "fs_isolation.py"
    out.write_text(src)
    subprocess.run(["patch", "-s", str(out), str(PATCHES / diff_name)], check=True)
    return out


if __name__ == "__main__":
    import tempfile

    base, _ = run({})
    print("unchanged tree:", sorted(base))
    failed = []
    for name in sys.argv[1:] or BREAKS:
        keys, _ = run({"VERIF_BREAK": name})
        new = {k: v for k, v in keys.items() if k not in base}
        print(f"{name}: {BREAKS.get(name, '')}\n    new keys -> {new}")
        if not new:
            failed.append(name)
    if not sys.argv[1:]:
        for diff_name in ("c29_fs_isolation_minimal.diff", "c29_fs_isolation_full.diff"):
            with tempfile.TemporaryDirectory() as tmp:
                keys, verdict = run({"VERIF_BREAK": f"file:{patched_copy(diff_name, tmp)}"})
            print(f"with {diff_name}: verdict={verdict} remaining keys -> {sorted(keys)}")
    print("NOT CAUGHT:", failed if failed else "none")
    sys.exit(1 if failed else 0)
