#!/venv/bin/python
"""Self-test of checks C30, C31, C32: apply one realistic seeded break (or one proposed fix) by monkeypatching — never
editing /repo —, run the directed part of the check in a child process and print the witness keys.

Usage: PYTHONHASHSEED=0 /venv/bin/python tools/selftest_c30_c31_c32.py [c30:name | c31:name | c32:name | c30 | c31 | c32 ...]
Entries named PROPOSED_FIX_* are not breaks: they are the patches proposed for defects of the unchanged tree and must make
the corresponding witness keys disappear.
"""

from __future__ import annotations

import pathlib
import shutil
import sys
import tempfile

sys.path.insert(0, str(pathlib.Path(__file__).resolve().parent.parent))

from vlib import core  # noqa: E402


# =============================================================================== C30
def c30_restore_leaves_stdout_redirected():
    """OutputSuppressionContext.restore() no longer puts sys.stdout / sys.stderr back."""
    import contextlib
    import os

    from pynguin.testcase.execution_isolation import OutputSuppressionContext as O

    def restore(self):
        with self._restored_lock:
            if self._restored:
                return
            self._restored = True
            for fd, saved_fd in self._saved_fds.items():
                with contextlib.suppress(OSError):
                    os.dup2(saved_fd, fd)
                with contextlib.suppress(OSError):
                    os.close(saved_fd)
            self._saved_fds.clear()

    O.restore = restore


def c30_fds_not_saved():
    """__enter__ does not dup fds 0-2 any more, so a SUT that closes fd 1 leaves it closed."""
    import sys

    from pynguin.testcase.execution_isolation import OutputSuppressionContext as O

    def enter(self):
        sys.stdout = self._null_file
        sys.stderr = self._null_file

    O.__enter__ = enter


def c30_rng_reseeded_with_sut():
    """_make_deterministic reseeds every tracked Random instance, Pynguin's own RNG included."""
    import random

    import pynguin.configuration as config
    import pynguin.testcase.execution as ex
    import pynguin.testcase.execution_isolation as iso

    def _make_deterministic():
        seed = config.configuration.seeding.seed
        random.seed(seed)
        tracked = getattr(random.Random.seed, "__pynguin_instances__", None)
        if tracked is not None:
            for inst in list(tracked):
                inst.seed(seed)

    iso._make_deterministic = _make_deterministic
    ex._make_deterministic = _make_deterministic


def c30_no_reseed_before_test():
    """_make_deterministic does nothing: the global random stream carries over from one test to the next."""
    import pynguin.testcase.execution as ex
    import pynguin.testcase.execution_isolation as iso

    iso._make_deterministic = lambda: None
    ex._make_deterministic = lambda: None


def c30_tracked_instances_not_reseeded():
    """_make_deterministic reseeds only the module-level generator; long-lived random.Random instances keep their stream."""
    import random

    import pynguin.configuration as config
    import pynguin.testcase.execution as ex
    import pynguin.testcase.execution_isolation as iso

    def _make_deterministic():
        random.seed(config.configuration.seeding.seed)

    iso._make_deterministic = _make_deterministic
    ex._make_deterministic = _make_deterministic


def c30_patch_random_does_not_track():
    """generator._patch_random still makes seed() deterministic but forgets to record the instances."""
    import random
    import weakref

    import pynguin.configuration as config
    import pynguin.generator as gen

    def _patch_random():
        if getattr(random.Random.seed, "__pynguin_patched__", False):
            return
        orig = random.Random.seed

        def seed(self, x=None):
            orig(self, config.configuration.seeding.seed if x is None else x)

        seed.__pynguin_patched__ = True
        seed.__pynguin_instances__ = weakref.WeakSet()
        random.Random.seed = seed

    gen._patch_random = _patch_random


def c30_PROPOSED_FIX_reseed_with_construction_seed():
    """Proposed patch for order-dependence:Random(seed).lazy-global: the patched seed() remembers the seed an instance was
    constructed with, and _make_deterministic reseeds it with *that* seed (config seed if none was given)."""
    import random
    import weakref

    import pynguin.configuration as config
    import pynguin.generator as gen
    import pynguin.testcase.execution as ex
    import pynguin.testcase.execution_isolation as iso
    from pynguin.utils import randomness

    def _patch_random():
        if getattr(random.Random.seed, "__pynguin_patched__", False):
            return
        orig = random.Random.seed
        tracked = weakref.WeakSet()

        def seed(self, x=None):
            if x is None:
                x = config.configuration.seeding.seed
            elif type(x).__hash__ is object.__hash__:
                x = f"{type(x).__module__}.{type(x).__name__}"
            orig(self, x)
            self.__dict__.setdefault("_pynguin_construction_seed", x)  # first call = the one made by __init__
            tracked.add(self)

        seed.__pynguin_patched__ = True
        seed.__pynguin_instances__ = tracked
        random.Random.seed = seed

    def _make_deterministic():
        seed = config.configuration.seeding.seed
        random.seed(seed)
        tracked = getattr(random.Random.seed, "__pynguin_instances__", None)
        if tracked is not None:
            for inst in list(tracked):
                if inst is not randomness.RNG:
                    inst.seed(inst.__dict__.get("_pynguin_construction_seed", seed))

    gen._patch_random = _patch_random
    iso._make_deterministic = _make_deterministic
    ex._make_deterministic = _make_deterministic


def c30_PROPOSED_FIX_logging_state_and_null_file():
    """Proposed patch: save/restore logging state around the SUT, reopen the shared null file if the SUT closed it,
    give the SUT a throw-away sys.stdin."""
    import contextlib
    import logging
    import os
    import sys

    import pynguin.testcase.execution as ex
    from pynguin.testcase.execution_isolation import OutputSuppressionContext as O

    @contextlib.contextmanager
    def preserve_logging_state():
        root = logging.root
        disable, level, handlers = root.manager.disable, root.level, root.handlers[:]
        try:
            yield
        finally:
            logging.disable(disable)
            root.setLevel(level)
            root.handlers[:] = handlers

    orig_enter, orig_restore = O.__enter__, O.restore

    def enter(self):
        if O._null_file.closed:
            O._null_file = open(os.devnull, mode="w")  # noqa: SIM115
        orig_enter(self)
        self._stdin = open(os.devnull)  # noqa: SIM115
        sys.stdin = self._stdin

    def restore(self):
        already = self._restored
        orig_restore(self)
        if not already:
            sys.stdin = sys.__stdin__
            with contextlib.suppress(Exception):
                self._stdin.close()

    O.__enter__, O.restore = enter, restore
    orig_exec = ex.TestCaseExecutor._execute_test_case

    def _execute_test_case(self, test_case, output_suppression_context, result_queue):
        with preserve_logging_state():
            orig_exec(self, test_case, output_suppression_context, result_queue)

    ex.TestCaseExecutor._execute_test_case = _execute_test_case


def c30_PROPOSED_MINIMAL_FIX_logging_disable_only():
    """Minimal patch for the confirmed defect only: restore logging.root.manager.disable after _execute_test_case."""
    import logging

    import pynguin.testcase.execution as ex

    orig_exec = ex.TestCaseExecutor._execute_test_case

    def _execute_test_case(self, test_case, output_suppression_context, result_queue):
        disabled = logging.root.manager.disable
        try:
            orig_exec(self, test_case, output_suppression_context, result_queue)
        finally:
            logging.disable(disabled)

    ex.TestCaseExecutor._execute_test_case = _execute_test_case


def _overlay_patch_file(diff_name, modules):
    """Apply tools/proposed_patches/<diff_name> to a *copy* of /repo/src and re-execute the patched sources inside the
    already imported modules (dependency order), so that the real diff is what gets tested. /repo is not touched."""
    import importlib
    import subprocess

    tmp = pathlib.Path(tempfile.mkdtemp(prefix="pynverif-overlay-"))
    shutil.copytree("/repo/src", tmp / "src")
    diff = pathlib.Path(__file__).resolve().parent / "proposed_patches" / diff_name
    subprocess.run(["patch", "-p1", "-s", "-d", str(tmp), "-i", str(diff)], check=True)
    for name in modules:
        mod = importlib.import_module(name)
        src = (tmp / "src" / (name.replace(".", "/") + ".py")).read_text()
        exec(compile(src, mod.__file__, "exec"), mod.__dict__)  # noqa: S102
    shutil.rmtree(tmp, ignore_errors=True)


def c30_PROPOSED_PATCH_FILE():
    """tools/proposed_patches/c30_logging_state_and_null_file.diff (logging state + shared null file; not stdin)."""
    _overlay_patch_file("c30_logging_state_and_null_file.diff",
                        ["pynguin.testcase.execution_isolation", "pynguin.testcase.execution", "pynguin.testcase.subprocess_executor"])


def c31_PROPOSED_PATCH_FILE():
    """tools/proposed_patches/c31_keep_unpicklable_exceptions.diff."""
    _overlay_patch_file("c31_keep_unpicklable_exceptions.diff", ["pynguin.testcase.subprocess_executor"])


def c31_PROPOSED_PATCH_FILE_baditems_raises():
    """tools/proposed_patches/c31_baditems_raises_keep_exceptions.diff (exception constructor raising on unpickle)."""
    _overlay_patch_file("c31_baditems_raises_keep_exceptions.diff", ["pynguin.testcase.subprocess_executor"])


# =============================================================================== C31
def _patch_fix_result(extra):
    from pynguin.testcase.subprocess_executor import SubprocessTestCaseExecutor as S

    orig = S._fix_result_for_pickle

    def _fix_result_for_pickle(result):
        orig(result)
        extra(result)

    S._fix_result_for_pickle = staticmethod(_fix_result_for_pickle)


def c31_subprocess_drops_exceptions():
    _patch_fix_result(lambda result: result.exceptions.clear())


def c31_subprocess_loses_assertion_trace():
    """_fix_assertion_trace clears the trace and forgets to re-add the cloned assertions of the last position."""
    from pynguin.testcase.subprocess_executor import SubprocessTestCaseExecutor as S

    def _fix_assertion_trace(assertion_trace, old_reference_bindings, new_reference_bindings):
        memo = {new: old_reference_bindings[pos] for pos, new in new_reference_bindings.items()}
        allas = assertion_trace.get_all_assertions()
        assertion_trace.clear()
        last = max(allas) if allas else None
        for position, assertions in allas.items():
            if position == last:
                continue
            for a in assertions:
                assertion_trace.add_entry(position, a.clone(memo))

    S._fix_assertion_trace = staticmethod(_fix_assertion_trace)


def c31_subprocess_loses_verification_trace():
    import pynguin.assertion.assertion_trace as at

    def extra(result):
        result.assertion_verification_trace = at.AssertionVerificationTrace()

    _patch_fix_result(extra)


def c31_subprocess_loses_false_branch_distances():
    def extra(result):
        tr = result.execution_trace
        for k in list(tr.false_distances):
            if tr.false_distances[k] == 0:
                tr.false_distances[k] = 1.0

    _patch_fix_result(extra)


def c31_subprocess_covers_no_lines_of_last_code_object():
    def extra(result):
        ids = result.execution_trace.covered_line_ids
        if len(ids) > 0:
            ids.discard(max(ids))

    _patch_fix_result(extra)


def c31_subprocess_timeout_ignores_test_size():
    """The subprocess executor waits test_execution_time_per_statement per test case instead of per statement."""
    from pynguin.testcase.subprocess_executor import SubprocessTestCaseExecutor as S

    def _calculate_timeout_for_multiple(self, test_cases):
        return min(self._maximum_test_execution_timeout * len(test_cases), self._test_execution_time_per_statement * len(test_cases))

    S._calculate_timeout_for_multiple = _calculate_timeout_for_multiple


C31_SPEC = {"subprocess_timeout_ignores_test_size": {"name": "slow", "module": "c31_tri", "config": 2, "reps": 1, "ks": [3, 4]}}


def c31_PROPOSED_FIX_keep_unpicklable_exceptions():
    """Proposed patch: an exception that pickle cannot re-create through its constructor is sent as
    (type, args, picklable part of __dict__) and rebuilt without calling __init__, instead of being dropped."""
    import dill

    import pynguin.testcase.subprocess_executor as sub

    def _filter_bad_exceptions(result, bad_exceptions):
        kept = {}
        for position, exception in result.exceptions.items():
            if not any(exception is b for b in bad_exceptions):
                kept[position] = exception
                continue
            for proxy in (sub._PicklableException(exception), sub._PicklableException(exception, lossy=True)):
                try:
                    dill.loads(dill.dumps(proxy))
                except Exception:  # noqa: BLE001 - try the lossy form (repr of the arguments), else drop as before
                    continue
                kept[position] = proxy
                break
        result.exceptions = kept

    class _PicklableException:
        def __init__(self, exc, lossy=False):
            self._exc, self._lossy = exc, lossy

        def __reduce__(self):
            exc = self._exc
            if self._lossy:
                return _rebuild_exception, (type(exc), tuple(repr(a) for a in exc.args), {})
            state = {k: v for k, v in vars(exc).items() if dill.pickles(v)}
            return _rebuild_exception, (type(exc), exc.args, state)

    sub._PicklableException = _PicklableException
    sub._rebuild_exception = _rebuild_exception
    sub._filter_bad_exceptions = _filter_bad_exceptions


def _rebuild_exception(cls, args, state):
    exc = cls.__new__(cls)
    exc.args = args
    exc.__dict__.update(state)
    return exc


# =============================================================================== C32
def c32_abandoned_thread_writes_into_current_trace():
    """The trace is no longer thread-local and an abandoned thread is no longer stopped by check():
    it keeps recording into whatever trace is current."""
    import pynguin.instrumentation.tracer as tr

    class Shared:
        def __init__(self):
            self.enabled = True
            self.trace = tr.ExecutionTrace()

    tr.ExecutionTracer.TracerLocalState = Shared
    tr.ExecutionTracer.check = lambda self: None


def c32_timeout_flag_lost():
    """execute() builds the result of a timed-out execution without the timeout flag."""
    import pynguin.testcase.execution as ex

    orig = ex.TestCaseExecutor.execute

    def execute(self, test_case):
        res = orig(self, test_case)
        if res.timeout and not res.execution_trace.covered_line_ids:
            res.timeout = False
        return res

    ex.TestCaseExecutor.execute = execute


def c32_configured_bound_ignored():
    """The executor ignores the configured bound and waits 6 s (twice)."""
    import pynguin.testcase.execution as ex

    orig = ex.TestCaseExecutor.__init__

    def __init__(self, subject_properties, module_provider=None, maximum_test_execution_timeout=5, test_execution_time_per_statement=1):
        orig(self, subject_properties, module_provider, 6, 6)

    ex.TestCaseExecutor.__init__ = __init__


def c32_second_join_uses_per_statement_time():
    """The second join (waiting for the abandoned thread) uses test_execution_time_per_statement instead of the maximum."""
    import inspect
    import textwrap

    import pynguin.testcase.execution as ex

    src = textwrap.dedent(inspect.getsource(ex.TestCaseExecutor.execute))
    old = "thread.join(timeout=self._maximum_test_execution_timeout)"
    assert old in src
    src = src.replace(old, "thread.join(timeout=self._test_execution_time_per_statement)")
    ns = {}
    exec(compile(src, ex.__file__, "exec"), ex.__dict__, ns)  # noqa: S102
    ex.TestCaseExecutor.execute = ns["execute"]


C32_VARIANT = {"second_join_uses_per_statement_time": 6}


# ===============================================================================
def _child(which, name):
    g = globals()
    if name != "none":
        g[f"{which}_{name}"]()
    ctx = core.Ctx(which.upper(), "quick", 0)
    ctx.scratch = pathlib.Path(tempfile.mkdtemp())
    try:
        if which == "c30":
            import checks.c30_exec_isolation as chk

            chk.run_chunk({"name": "directed"}, ctx)
        elif which == "c31":
            import checks.c31_inproc_vs_subprocess as chk

            mods = ["c31_exc", "c31_acc"] if "exception" in name.lower() or name in ("none", "PROPOSED_PATCH_FILE", "PROPOSED_PATCH_FILE_baditems_raises") else ["c31_acc", "c31_tri"]
            # one SUT module per process (the subprocess executor looks at sys.meta_path[0]): second module in a grandchild
            chk.run_chunk(C31_SPEC.get(name, {"name": "directed", "module": mods[0]}), ctx)
        else:
            import checks.c32_timeouts as chk

            # (one chunk per process: a second setup_sut would find the module already imported with the first tracer)
            chk.run_chunk({"name": "directed", "variant": C32_VARIANT.get(name, 0)}, ctx)
    finally:
        shutil.rmtree(ctx.scratch, ignore_errors=True)
    keys = ctx.extra.get("witness_counts", {})
    print(f"{which} break={name}: evals={ctx.evals} inconclusive={ctx.inconclusive[:1]} anomalies={dict(ctx.anomalies)} witness keys:")
    for k, v in sorted(keys.items()):
        print(f"    {v:6d}  {k}")


def _names(which):
    return [k[len(which) + 1:] for k in globals() if k.startswith(which + "_")]


def main(argv):
    import subprocess

    todo = []
    for a in argv or ["c30", "c31", "c32"]:
        if ":" in a:
            todo.append(tuple(a.split(":", 1)))
        else:
            todo += [(a, "none")] + [(a, n) for n in _names(a)]
    for which, name in todo:
        out = subprocess.run([sys.executable, __file__, "__child__", which, name], capture_output=True, text=True, env=core.child_env())
        txt = out.stdout.strip()
        print(txt[txt.find(f"{which} break="):] if f"{which} break=" in txt else (txt[-600:] + out.stderr[-800:]))
        sys.stdout.flush()


if __name__ == "__main__":
    if len(sys.argv) > 3 and sys.argv[1] == "__child__":
        _child(sys.argv[2], sys.argv[3])
    else:
        main(sys.argv[1:])
