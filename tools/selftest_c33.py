#!/venv/bin/python
"""Self-test of check C33: realistic seeded breaks of the master/worker restart protocol.

The breaks live in ``vlib/monitors/masterworker.py`` (``BREAKS``) and are applied by monkeypatching inside the child
interpreters (env ``VERIF_BREAK=<name>``; /repo is never edited): the scripted driver and the real-pipeline driver both
install the monitor, which applies the break before wrapping.

Usage: /venv/bin/python tools/selftest_c33.py [--no-real] [name ...]      (default: all breaks + the unbroken baseline)
For each break a small scripted workload (all fault sequences of length <= 2 under T in {5, 1, -1} plus a few
repeat-for-ever ones) and one real pipeline are judged by the check's own oracle; the expected mechanism key must be
among the witnesses, and the baseline (no break) must be silent.
"""

from __future__ import annotations

import pathlib
import shutil
import sys
import time

from concurrent.futures import ThreadPoolExecutor

sys.path.insert(0, str(pathlib.Path(__file__).resolve().parent.parent))


def real_case(phase, n, kind, budget):
    return {"phase": phase, "n": n, "budget_kind": kind, "budget": budget, "module": "tri", "algorithm": "DYNAMOSA", "seed": 11,
            "assertion_generation": "NONE", "minimize": False}


# name -> (expected key, real case or None).  TIMING_DEPENDENT_REAL: the break only shows in a real pipeline if the crashed
# worker lived for less than a second (import crash on an idle machine); there the scripted workload is the deciding one and
# a silent real run is reported as "not-triggered", not as a miss.
EXPECT = {
    "adjust-rounds-up": ("restart:search-time-not-reduced", real_case("import", 2, "time", {"maximum_search_time": 6})),
    "adjust-noop": ("restart:search-time-not-reduced", real_case("cluster", 1, "time", {"maximum_search_time": 6})),
    "short-crashes-free": ("restart:search-time-not-reduced", real_case("import", 1, "time", {"maximum_search_time": 6})),
    "restart-ignores-zero": ("restart:without-search-time", real_case("import", 1, "iter", {"maximum_iterations": 3})),
    "restart-zero-off-by-one": ("restart:without-search-time", None),
    "client-none-is-ok": ("ok-without-worker-result", real_case("cluster", 99, "time", {"maximum_search_time": 6})),
    "eof-swallowed-ok": ("ok-without-worker-result", real_case("search-start", 1, "iter", {"maximum_iterations": 3})),
    "adjust-undercounts": ("restart:after-wall-clock-budget-exhausted", real_case("export", 99, "time", {"maximum_search_time": 6})),
}
REAL_ONLY = {"adjust-undercounts"}
TIMING_DEPENDENT_REAL = {"adjust-rounds-up", "short-crashes-free"}


def scripted_cases(brk):
    import checks.c33_worker_crashes as c33

    cases = []
    for t in (5, 1, -1):
        for s in c33.enumerated_sequences(2):
            cases.append({"script": s, "then": "send-ok", "T": t, "delay": 0.3, "tag": "enum2"})
    if brk in (None, "restart-ignores-zero", "restart-zero-off-by-one", "client-none-is-ok", "eof-swallowed-ok"):
        # (with the adjust breaks a fault that repeats for ever never terminates: that is what they break)
        for s in (["die0"], ["close"], ["raise", "die-delay"]):
            for t in (2, -1):
                cases.append({"script": s, "then": "repeat", "T": t, "delay": 0.3, "tag": "repeat"})
    return cases


def run_one(brk, with_real=True):
    import checks.c33_worker_crashes as c33

    from vlib import core

    out = {}
    t0 = time.time()
    if brk not in REAL_ONLY:
        ctx = core.Ctx("C33", "quick", 0)
        ctx.scratch = core.make_scratch("pynverif-st33-")
        c33.run_chunk({"name": "scripted-cases", "cases": scripted_cases(brk), "seeded_break": brk, "parallel": 4}, ctx)
        shutil.rmtree(ctx.scratch, ignore_errors=True)
        out["scripted"] = ctx
    real = EXPECT[brk][1] if brk else real_case("search-iteration", 2, "time", {"maximum_search_time": 6})
    if with_real and real is not None:
        ctx = core.Ctx("C33", "quick", 0)
        ctx.scratch = core.make_scratch("pynverif-st33-")
        c33.run_chunk({"name": "real-directed", "cases": [real], "seeded_break": brk}, ctx)
        shutil.rmtree(ctx.scratch, ignore_errors=True)
        out["real"] = ctx
    out["wall"] = time.time() - t0
    return brk, out


def main(argv):
    with_real = "--no-real" not in argv
    names = [a for a in argv if not a.startswith("--")] or [None, *EXPECT]
    names = [None if n in ("baseline", "None") else n for n in names]
    bad = 0
    with ThreadPoolExecutor(max_workers=4) as ex:
        for brk, out in ex.map(lambda n: run_one(n, with_real), names):
            for wl in ("scripted", "real"):
                ctx = out.get(wl)
                if ctx is None:
                    continue
                keys = sorted({w["key"] for w in ctx.witnesses})
                counts = ctx.extra.get("witness_counts", {})
                if brk is None:
                    ok = not keys and not ctx.inconclusive
                    verdict = "silent" if ok else "NOT SILENT"
                else:
                    ok = EXPECT[brk][0] in keys
                    verdict = "caught" if ok else "MISSED"
                    if not ok and wl == "real" and brk in TIMING_DEPENDENT_REAL and not keys:
                        ok, verdict = True, "not-triggered"
                bad += 0 if ok else 1
                print(f"{str(brk or 'baseline'):26s} {wl:8s} {verdict:10s} evals={ctx.evals:4d} witnesses={counts} "
                      f"inconclusive={ctx.inconclusive[:2]} anomalies={dict(ctx.anomalies)}")
            print(f"{str(brk or 'baseline'):26s} wall {out['wall']:.0f}s", flush=True)
    print("SELFTEST", "FAILED" if bad else "PASSED")
    return 1 if bad else 0


if __name__ == "__main__":
    sys.exit(main(sys.argv[1:]))
