#!/venv/bin/python
"""Self-test of the cluster / type-system checks (C25, C26, C27): each check must *fire* on realistic
seeded breaks.  A break is a monkeypatch of a pynguin function applied inside a child process (the
repository is never edited); the child runs the check's directed chunk (plus one small random chunk)
and reports the witness keys.  A break is "caught" when it produces at least one mechanism key that the
unchanged tree does not produce.

    tools/selftest_cluster.py            # all three checks
    tools/selftest_cluster.py C26        # one check
"""

from __future__ import annotations

import json
import os
import subprocess
import sys

from pathlib import Path

VERIF = Path(__file__).resolve().parent.parent
sys.path.insert(0, str(VERIF))


# ---- seeded breaks ------------------------------------------------------------------------------
def c25_union_member_ignored():
    from pynguin.analyses import typesystem as t

    def visit_union_type(self, left):
        items = left.items[:-1] if len(left.items) > 1 else left.items
        return all(self.sub_type_check(e, self.right) for e in items)

    t._SubtypeVisitor.visit_union_type = visit_union_type


def c25_tower_edge_reversed():
    from pynguin.analyses import typesystem as t

    def enable_numeric_tower(self):
        b, i, f, c = (self.to_type_info(x) for x in (bool, int, float, complex))
        self.add_subclass_edge(super_class=i, sub_class=b)
        self.add_subclass_edge(super_class=i, sub_class=f)  # reversed: float <: int
        self.add_subclass_edge(super_class=c, sub_class=f)

    t.TypeSystem.enable_numeric_tower = enable_numeric_tower


def c25_distance_off_by_one():
    import networkx as nx

    from pynguin.analyses import typesystem as t

    def get_shortest_path_length(self, start, end):
        try:
            return int(nx.shortest_path_length(self._graph, start, end)) + 1
        except nx.NetworkXNoPath:
            return None

    t.TypeSystem.get_shortest_path_length = get_shortest_path_length


def c25_any_not_top():
    from pynguin.analyses import typesystem as t

    def is_subtype(self, left, right):
        if isinstance(right, t.UnionType) and not isinstance(left, t.UnionType):
            return any(self.is_subtype(left, r) for r in right.items)
        if isinstance(right, t.AnyType) and isinstance(left, (t.TupleType, t.NoneType)):
            return False  # shortcut for Any lost for two left kinds
        if isinstance(right, t.AnyType):
            return True
        return left.accept(t._SubtypeVisitor(self, right, self.is_subtype))

    import functools

    t.TypeSystem.is_subtype = functools.lru_cache(maxsize=16384)(is_subtype)


def c25_diamond_second_base_dropped():
    """module analysis registers only the first base of a class."""
    from pynguin.analyses import typesystem as t

    orig = t.TypeSystem.add_subclass_edge
    seen = set()

    def add_subclass_edge(self, *, super_class, sub_class):
        k = (id(self), sub_class.full_name)
        if k in seen and sub_class.module not in ("builtins",) and super_class.full_name != "builtins.object":
            return
        seen.add(k)
        orig(self, super_class=super_class, sub_class=sub_class)

    t.TypeSystem.add_subclass_edge = add_subclass_edge


def c26_skip_clear_generator_cache():
    from pynguin.analyses import generator as g

    g.GeneratorProvider.clear_generator_cache = lambda self: None


def c26_new_cache_on_get_all_types():
    import functools

    from pynguin.analyses import generator as g

    g.GeneratorProvider.get_all_types = functools.lru_cache(maxsize=64)(g.GeneratorProvider.get_all_types)


def c26_random_provider_wrong_direction():
    from pynguin.analyses import generator as g
    from pynguin.utils.orderedset import OrderedSet

    def _get_generators_for(self, typ):
        if isinstance(typ, g.AnyType):
            return self._get_all_generators(typ)
        results = OrderedSet()
        for gen_type, generators in self.get_all().items():
            if self._type_system.is_maybe_subtype(typ, gen_type):  # direction swapped
                results.update(generators)
        return OrderedSet(g._Generator(x, typ, self._fitness_function) for x in results)

    import functools

    g.RandomGeneratorProvider._get_generators_for = functools.lru_cache(maxsize=1024)(_get_generators_for)


def c26_rank_provider_forgets_subclasses():
    """rank provider only offers exact-distance-0 generators (distance drift)."""
    from pynguin.analyses import generator as g
    from pynguin.utils.orderedset import OrderedSet

    def _get_generators_for(self, typ):
        if isinstance(typ, g.AnyType):
            return self._get_all_generators(typ)
        if typ.accept(g.is_primitive_type):
            return OrderedSet()
        out = OrderedSet()
        for generated_typ in self.get_all_types():
            d = self._type_system.subtype_distance(typ, generated_typ)
            if d is not None and d <= 1:
                out.update(self._get_for_type(generated_typ, d))
        return out

    import functools

    g.GeneratorProvider._get_generators_for = functools.lru_cache(maxsize=1024)(_get_generators_for)


def c26_edge_skips_clear_when_already_reachable():
    """add_subclass_edge only invalidates the caches when reachability changes (a shortcut edge changes distances only)."""
    import networkx as nx

    from pynguin.analyses import typesystem as t

    def add_subclass_edge(self, *, super_class, sub_class):
        reachable = super_class in self._graph and sub_class in self._graph and nx.has_path(self._graph, super_class, sub_class)
        self._graph.add_edge(super_class, sub_class)
        if reachable:
            return
        for name in ("get_subclasses", "get_superclasses", "is_subclass", "is_subtype", "is_maybe_subtype", "subtype_distance"):
            getattr(t.TypeSystem, name).cache_clear()

    t.TypeSystem.add_subclass_edge = add_subclass_edge


def c26_edge_never_clears():
    from pynguin.analyses import typesystem as t

    def add_subclass_edge(self, *, super_class, sub_class):
        self._graph.add_edge(super_class, sub_class)

    t.TypeSystem.add_subclass_edge = add_subclass_edge


def c26_add_generator_does_not_clear():
    import pynguin.analyses.module as m

    def add_generator(self, generator):
        self.generator_provider.add(generator)

    m.ModuleTestCluster.add_generator = add_generator


def _patch_module_fn(name, make):
    import pynguin.analyses.module as m

    orig = getattr(m, name)
    setattr(m, name, make(orig))


def c27_imported_functions_under_test():
    def make(orig):
        def wrapper(**kw):
            kw["add_to_test"] = True
            return orig(**kw)
        return wrapper
    _patch_module_fn("__analyse_function", make)


def c27_imported_classes_under_test():
    def make(orig):
        def wrapper(**kw):
            kw["add_to_test"] = kw["add_to_test"] or kw["type_info"].module.endswith("_h")
            return orig(**kw)
        return wrapper
    _patch_module_fn("__analyse_class", make)


def c27_protected_is_public():
    _patch_module_fn("__is_protected", lambda orig: (lambda name: False))


def c27_inherited_attributed_to_subclass():
    _patch_module_fn("__is_method_defined_in_class", lambda orig: (lambda class_, method: True))


def c27_ignore_methods_not_applied():
    def make(orig):
        def wrapper(element):
            import pynguin.configuration as config

            saved = config.configuration.ignore_methods
            config.configuration.ignore_methods = []
            try:
                return orig(element)
            finally:
                config.configuration.ignore_methods = saved
        return wrapper
    _patch_module_fn("_is_blacklisted", make)


def c27_coroutines_included():
    import inspect

    import pynguin.analyses.module as m

    class _Insp:
        def __getattr__(self, n):
            if n in ("iscoroutinefunction", "isasyncgenfunction"):
                return lambda f: False
            return getattr(inspect, n)

    m.inspect = _Insp()


BREAKS = {
    "C25": {
        "is_subtype ignores the last union member": c25_union_member_ignored,
        "numeric tower edge reversed (float <: int)": c25_tower_edge_reversed,
        "shortest path length off by one": c25_distance_off_by_one,
        "Any is not top for tuple / None": c25_any_not_top,
        "only the first base class gets an edge": c25_diamond_second_base_dropped,
    },
    "C26": {
        "provider skips clear_generator_cache": c26_skip_clear_generator_cache,
        "new lru_cache on GeneratorProvider.get_all_types": c26_new_cache_on_get_all_types,
        "random provider checks is_maybe_subtype in the wrong direction": c26_random_provider_wrong_direction,
        "rank provider drops generators further than one subclass step": c26_rank_provider_forgets_subclasses,
        "add_subclass_edge keeps the caches when the subclass was already reachable (shortcut edge)": c26_edge_skips_clear_when_already_reachable,
        "add_subclass_edge never clears the type-system caches": c26_edge_never_clears,
        "add_generator does not clear the provider caches": c26_add_generator_does_not_clear,
    },
    "C27": {
        "imported functions marked under test": c27_imported_functions_under_test,
        "imported classes marked under test": c27_imported_classes_under_test,
        "protected names treated as public": c27_protected_is_public,
        "inherited methods attributed to the subclass": c27_inherited_attributed_to_subclass,
        "ignore_methods not applied": c27_ignore_methods_not_applied,
        "coroutines not skipped": c27_coroutines_included,
    },
}
MODULES = {"C25": "checks.c25_subtyping", "C26": "checks.c26_generators", "C27": "checks.c27_cluster"}
SPECS = {
    "C25": [{"name": "directed", "seed": 0}],
    "C26": [{"name": "directed", "seed": 0}, {"name": "directed-edges", "seed": 0}, {"name": "random", "seed": 0, "part": 0, "n": 3}],
    "C27": [{"name": "directed", "seed": 0}, {"name": "directed-groups", "seed": 0}],
}


def child(pid, brk):
    import importlib

    from vlib import core

    if brk != "-":
        BREAKS[pid][brk]()
    mod = importlib.import_module(MODULES[pid])
    ctx = core.Ctx(pid, "quick", 0)
    for spec in SPECS[pid]:
        ctx.scratch = core.make_scratch()
        try:
            mod.run_chunk(spec, ctx)
        finally:
            import shutil

            shutil.rmtree(ctx.scratch, ignore_errors=True)
    print("RESULT " + json.dumps({"keys": dict(ctx._wit_per_key), "evals": ctx.evals, "inconclusive": ctx.inconclusive}))  # noqa: SLF001


def run_child(pid, brk):
    env = dict(os.environ, PYTHONHASHSEED="0", PYTHONDONTWRITEBYTECODE="1", SE2P_PYNGUIN_VERIF="1")
    return subprocess.Popen([sys.executable, __file__, "--child", pid, brk], stdout=subprocess.PIPE, stderr=subprocess.PIPE, text=True, env=env, cwd=str(VERIF))


def main():
    if len(sys.argv) > 1 and sys.argv[1] == "--child":
        child(sys.argv[2], sys.argv[3])
        return 0
    pids = [a.upper() for a in sys.argv[1:]] or list(BREAKS)
    procs = {}
    for pid in pids:
        procs[(pid, "-")] = run_child(pid, "-")
        for brk in BREAKS[pid]:
            procs[(pid, brk)] = run_child(pid, brk)
    results = {}
    for k, p in procs.items():
        out, err = p.communicate()
        line = [l for l in out.splitlines() if l.startswith("RESULT ")]
        results[k] = json.loads(line[-1][7:]) if line else {"keys": {}, "error": err[-800:]}
    rc = 0
    for pid in pids:
        base = results[(pid, "-")]
        print(f"== {pid}: unchanged tree -> {len(base['keys'])} mechanism keys, {base.get('evals')} evaluations")
        for brk in BREAKS[pid]:
            r = results[(pid, brk)]
            if "error" in r:
                print(f"   ?? {brk}: child failed: {r['error'][-300:]}")
                rc = 1
                continue
            new = {k: v for k, v in r["keys"].items() if k not in base["keys"]}
            status = "CAUGHT" if new else "MISSED"
            if not new:
                rc = 1
            print(f"   {status}: {brk}: {len(new)} new key(s)" + (f", harness problems: {r['inconclusive'][:1]}" if r.get("inconclusive") else ""))
            for k, v in sorted(new.items())[:6]:
                print(f"        {v:6d} x {k}")
    return rc


if __name__ == "__main__":
    sys.exit(main())
