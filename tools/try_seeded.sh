#!/bin/bash
# Usage: tools/try_seeded.sh <dir with patch.diff [+ demo.py]> <check id> [more ids]   (TIER=quick|thorough, default quick)
# Evaluates a seeded change in a scratch worktree (PYTHONPATH override), never touching /repo's working tree.
set -u
D=$(readlink -f "$1"); shift
WT=/tmp/wt_eval_$$
git -C /repo worktree add --detach "$WT" HEAD >/dev/null 2>&1 || exit 3
trap 'git -C /repo worktree remove --force "$WT" >/dev/null 2>&1' EXIT
if ! git -C "$WT" apply "$D/patch.diff"; then echo "PATCH DOES NOT APPLY"; exit 3; fi
DEMO=$(ls "$D"/demo*.py 2>/dev/null | head -1)
if [ -n "$DEMO" ]; then
  if [[ "$DEMO" == *_test.py || "$DEMO" == *test_*.py ]]; then RUN="-m pytest -q -p no:cacheprovider"; else RUN=""; fi
  (cd /tmp && PYTHONPATH="$WT/src" timeout 600 /venv/bin/python $RUN "$DEMO" >/dev/null 2>&1); echo "demo with change: exit $?"
  (cd /tmp && PYTHONPATH="/repo/src" timeout 600 /venv/bin/python $RUN "$DEMO" >/dev/null 2>&1); echo "demo without change: exit $?"
fi
cd /verif
for id in "$@"; do
  mkdir -p /tmp/evid_$$; cp evidence/$id.json /tmp/evid_$$/ 2>/dev/null
  PYTHONPATH="$WT/src" timeout 3000 /venv/bin/python run_check.py "$id" --tier "${TIER:-quick}" ${EXTRA:-} 2>&1 | grep -v "^KNOWN-FINDING" | grep -E "VIOLATION|verdict=|witness key" | head -6
  echo "  -> $id exit ${PIPESTATUS[0]}"
  cp /tmp/evid_$$/$id.json evidence/ 2>/dev/null   # keep the committed evidence of the unchanged tree
done
rm -rf /tmp/evid_$$
