#!/venv/bin/python
"""Fills the generated tables of DESIGN.md (between <!-- TABLES:x:BEGIN/END --> markers) from known_findings.json and seeded/*/meta.json."""
import os, re, subprocess, sys
V = os.path.dirname(os.path.dirname(os.path.abspath(__file__)))
out = subprocess.run([sys.executable, f"{V}/tools/gen_design_tables.py"], capture_output=True, text=True, check=True).stdout
parts = re.split(r"^### .*$", out, flags=re.M)
fixed, known, seeded = (p.strip() for p in parts[1:4])
s = open(f"{V}/DESIGN.md").read()
for name, body in (("FIXED", fixed), ("KNOWN", known), ("SEEDED", seeded)):
    s = re.sub(rf"(<!-- TABLES:{name}:BEGIN -->\n).*?(<!-- TABLES:{name}:END -->)", lambda m: m.group(1) + body + "\n" + m.group(2), s, flags=re.S)
open(f"{V}/DESIGN.md", "w").write(s)
