#!/opt/veriftools/pyvenv/bin/python
import json, sys, jsonschema
from pathlib import Path
V = Path(__file__).resolve().parent.parent
jsonschema.validate(json.loads((V/"MANIFEST.json").read_text()), json.loads(Path("/root/.vp/MANIFEST.schema.json").read_text()))
es = json.loads(Path("/root/.vp/EVIDENCE.schema.json").read_text())
bad = 0
for f in sorted((V/"evidence").glob("*.json")):
    try:
        jsonschema.validate(json.loads(f.read_text()), es)
    except Exception as e:
        bad += 1; print("INVALID", f.name, str(e)[:300])
print("manifest ok; evidence files:", len(list((V/"evidence").glob("*.json"))), "invalid:", bad)
sys.exit(1 if bad else 0)
