#!/venv/bin/python
import json, sys
e=json.load(open(f'/verif/evidence/{sys.argv[1]}.json'))
c=e['coverage']
for k,v in sorted(c['witness_counts_by_mechanism'].items()): print(v,k)
print('inconclusive:', c['inconclusive_reasons'], 'evals', c['evaluations'], 'distinct', c['distinct_nontrivial'], 'wall', e['wall_s'], 'anomalies', c['anomalies'])
seen=set()
for w in c['violation_witnesses'][:80]:
    if w['key'] in seen: continue
    seen.add(w['key']); print(' *', w['key'],'|', w['desc'][:int(sys.argv[2]) if len(sys.argv)>2 else 220])
