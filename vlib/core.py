"""Verdict discipline, evidence writer, known-finding classification, chunk fan-out.

Every check module in /verif/checks exposes

    ID        "C34"
    LEVEL     "exploration" | "fault_enumeration"
    RULE      one sentence: how cases are generated, what the oracle is, what is non-trivial
    ASSUMPTIONS  list[str]
    plan(tier, seed) -> list[dict]      JSON-able chunk specs; the first one(s) are the directed cases
    run_chunk(spec, ctx) -> None        runs the real code under the monitors, reports through ctx
    floors(tier) -> dict                {"evals": n, "distinct": n, "classes": {name: min}}
    IN_PROCESS (optional, default False)   run chunks in this process instead of one subprocess each
    CHUNK_TIMEOUT (optional)            seconds per chunk (watchdog; firing => inconclusive)

The verdict is three-valued: violation (exit 1), held (exit 0), inconclusive (exit 2).
"""

from __future__ import annotations

import collections
import hashlib
import json
import os
import shutil
import subprocess
import sys
import tempfile
import time
import traceback

from concurrent.futures import ThreadPoolExecutor
from pathlib import Path


VERIF = Path(__file__).resolve().parent.parent
PY = "/venv/bin/python"
MAX_SAMPLES = 12
MAX_WITNESSES_PER_KEY = 5


def stable_hash(obj) -> str:
    return hashlib.sha1(json.dumps(obj, sort_keys=True, default=repr).encode()).hexdigest()[:16]


def jsonable(obj, depth=0):
    if depth > 6:
        return repr(obj)[:200]
    if isinstance(obj, (str, int, bool)) or obj is None:
        return obj
    if isinstance(obj, float):
        return obj if obj == obj and abs(obj) != float("inf") else repr(obj)
    if isinstance(obj, dict):
        return {str(k): jsonable(v, depth + 1) for k, v in list(obj.items())[:60]}
    if isinstance(obj, (list, tuple, set, frozenset)):
        return [jsonable(v, depth + 1) for v in list(obj)[:60]]
    return repr(obj)[:300]


class Ctx:
    """Collects what the monitors observed in one chunk (or, merged, in one run)."""

    def __init__(self, pid: str, tier: str, seed: int):
        self.pid = pid
        self.tier = tier
        self.seed = seed
        self.evals = 0
        self.classes: collections.Counter = collections.Counter()
        self.distinct: set[str] = set()
        self.samples: list = []
        self.witnesses: list[dict] = []
        self.anomalies: collections.Counter = collections.Counter()
        self.inconclusive: list[str] = []
        self.extra: dict = {}
        self._wit_per_key: collections.Counter = collections.Counter()
        self.scratch: Path | None = None

    # ---- reporting API used by checks -------------------------------------------------
    def ok(self, n: int = 1, cls=None, distinct=None):
        """One (or n) oracle evaluation(s) happened; optionally of a class / distinct case."""
        self.evals += n
        if cls is not None:
            if isinstance(cls, (list, tuple, set)):
                for c in cls:
                    self.classes[c] += n
            else:
                self.classes[cls] += n
        if distinct is not None:
            self.distinct.add(distinct if isinstance(distinct, str) else stable_hash(distinct))

    def cls(self, name, n: int = 1):
        self.classes[name] += n

    def sample(self, obj):
        if len(self.samples) < MAX_SAMPLES:
            self.samples.append(jsonable(obj))

    def witness(self, key: str, desc: str, case=None):
        """The oracle disagreed. key = mechanism (never a seed / hash), case = replayable input."""
        self._wit_per_key[key] += 1
        if self._wit_per_key[key] <= MAX_WITNESSES_PER_KEY:
            self.witnesses.append({"key": key, "desc": desc[:600], "case": jsonable(case)})
        self.extra.setdefault("witness_counts", {})
        self.extra["witness_counts"][key] = self._wit_per_key[key]

    def anomaly(self, name: str, n: int = 1):
        self.anomalies[name] += n

    def inconclusive_because(self, why: str):
        if len(self.inconclusive) < 20:
            self.inconclusive.append(why[:400])

    def note(self, key, value):
        self.extra[key] = jsonable(value)

    def count(self, key, n=1):
        self.extra[key] = self.extra.get(key, 0) + n

    # ---- (de)serialisation between worker and driver ------------------------------------
    def to_result(self) -> dict:
        return {
            "evals": self.evals,
            "classes": dict(self.classes),
            "distinct": sorted(self.distinct),
            "samples": self.samples,
            "witnesses": self.witnesses,
            "anomalies": dict(self.anomalies),
            "inconclusive": self.inconclusive,
            "extra": self.extra,
        }

    def merge(self, res: dict):
        self.evals += res.get("evals", 0)
        self.classes.update(res.get("classes", {}))
        self.distinct.update(res.get("distinct", []))
        for s in res.get("samples", []):
            if len(self.samples) < MAX_SAMPLES:
                self.samples.append(s)
        for w in res.get("witnesses", []):
            self._wit_per_key[w["key"]] += 1
            if self._wit_per_key[w["key"]] <= MAX_WITNESSES_PER_KEY:
                self.witnesses.append(w)
        self.anomalies.update(res.get("anomalies", {}))
        self.inconclusive.extend(res.get("inconclusive", []))
        for k, v in res.get("extra", {}).items():
            if k == "witness_counts":
                wc = self.extra.setdefault("witness_counts", {})
                for kk, vv in v.items():
                    wc[kk] = wc.get(kk, 0) + vv
            elif isinstance(v, (int, float)) and not isinstance(v, bool) and isinstance(self.extra.get(k, 0), (int, float)):
                self.extra[k] = self.extra.get(k, 0) + v
            elif isinstance(v, list) and isinstance(self.extra.get(k, []), list):
                cur = self.extra.setdefault(k, [])
                for item in v:
                    if item not in cur and len(cur) < 60:
                        cur.append(item)
            elif isinstance(v, dict) and isinstance(self.extra.get(k, {}), dict):
                cur = self.extra.setdefault(k, {})
                for kk, vv in v.items():
                    if isinstance(vv, (int, float)) and not isinstance(vv, bool):
                        cur[kk] = cur.get(kk, 0) + vv
                    else:
                        cur.setdefault(kk, vv)
            else:
                self.extra.setdefault(k, v)


# ---------------------------------------------------------------------------------------
def load_known() -> dict:
    p = VERIF / "known_findings.json"
    if not p.exists():
        return {"findings": [], "fixed": []}
    return json.loads(p.read_text())


def make_scratch(prefix="pynverif-") -> Path:
    return Path(tempfile.mkdtemp(prefix=prefix))


def child_env(extra: dict | None = None) -> dict:
    env = dict(os.environ)
    env.setdefault("PYTHONHASHSEED", "0")
    env["PYTHONDONTWRITEBYTECODE"] = "1"
    env["SE2P_PYNGUIN_VERIF"] = "1"
    env["PYTHONPATH"] = str(VERIF) + (os.pathsep + env["PYTHONPATH"] if env.get("PYTHONPATH") else "")
    if extra:
        env.update(extra)
    return env


def _run_chunk_subprocess(mod_id: str, tier: str, seed: int, idx: int, spec: dict, timeout: float, tmp: Path):
    spec_f = tmp / f"spec_{idx}.json"
    out_f = tmp / f"out_{idx}.json"
    spec_f.write_text(json.dumps(spec))
    cmd = [PY, str(VERIF / "run_check.py"), mod_id, "--tier", tier, "--chunk", str(spec_f), "--out", str(out_f)]
    env = child_env({"VERIF_SEED": str(seed)})
    t0 = time.time()
    try:
        cp = subprocess.run(cmd, env=env, capture_output=True, text=True, timeout=timeout, cwd=str(VERIF))
    except subprocess.TimeoutExpired:
        return {"inconclusive": [f"chunk {idx} watchdog fired after {timeout}s: {json.dumps(spec)[:200]}"], "_wall": time.time() - t0}
    if out_f.exists():
        try:
            res = json.loads(out_f.read_text())
            res["_wall"] = time.time() - t0
            return res
        except Exception:  # noqa: BLE001
            pass
    return {
        "inconclusive": [f"chunk {idx} died rc={cp.returncode}: {json.dumps(spec)[:150]} :: {cp.stderr[-600:]}"],
        "_wall": time.time() - t0,
    }


def apply_selftest_patch():
    """Self-test only: VERIF_SELFTEST_PATCH=<file.py> is exec'd before a chunk runs, so a seeded break can be applied
    to the imported pynguin modules by monkeypatching, without editing /repo."""
    path = os.environ.get("VERIF_SELFTEST_PATCH")
    if path:
        exec(compile(Path(path).read_text(), path, "exec"), {"__name__": "selftest_patch"})  # noqa: S102


def run_chunk_in_child(mod, tier: str, seed: int, spec_path: str, out_path: str):
    """Entry point inside the worker subprocess."""
    apply_selftest_patch()
    spec = json.loads(Path(spec_path).read_text())
    ctx = Ctx(mod.ID, tier, seed)
    ctx.scratch = make_scratch()
    try:
        mod.run_chunk(spec, ctx)
    except BaseException as e:  # noqa: BLE001 - harness failure, never a verdict
        ctx.inconclusive_because(f"harness exception in chunk {spec.get('name', '')}: {type(e).__name__}: {e}\n{traceback.format_exc()[-900:]}")
    finally:
        shutil.rmtree(ctx.scratch, ignore_errors=True)
    Path(out_path).write_text(json.dumps(ctx.to_result()))


def run_check(mod, tier: str, seed: int, jobs: int = 16, only: str | None = None) -> int:
    t0 = time.time()
    total = Ctx(mod.ID, tier, seed)
    specs = mod.plan(tier, seed)
    if only:
        specs = [s for s in specs if only in json.dumps(s)]
    in_process = getattr(mod, "IN_PROCESS", False)
    timeout = getattr(mod, "CHUNK_TIMEOUT", 600 if tier == "quick" else 3600)
    tmp = make_scratch("pynverif-run-")
    try:
        if in_process:
            apply_selftest_patch()
            for spec in specs:
                ctx = Ctx(mod.ID, tier, seed)
                ctx.scratch = make_scratch()
                try:
                    mod.run_chunk(spec, ctx)
                except BaseException as e:  # noqa: BLE001
                    ctx.inconclusive_because(f"harness exception: {type(e).__name__}: {e}\n{traceback.format_exc()[-900:]}")
                finally:
                    shutil.rmtree(ctx.scratch, ignore_errors=True)
                total.merge(ctx.to_result())
        else:
            # chunks marked {"exclusive": true} are timing sensitive: they run one at a time after the parallel batch, so that the
            # load of the check's own other chunks cannot disturb them
            indexed = list(enumerate(specs))
            jobs = max(1, min(jobs, getattr(mod, "MAX_PARALLEL_CHUNKS", jobs)))  # timing-sensitive checks limit their own load
            with ThreadPoolExecutor(max_workers=jobs) as ex:
                futs = [
                    ex.submit(_run_chunk_subprocess, mod.ID, tier, seed, i, spec, timeout, tmp)
                    for i, spec in indexed if not spec.get("exclusive")
                ]
                for f in futs:
                    total.merge(f.result())
            for i, spec in indexed:
                if spec.get("exclusive"):
                    total.merge(_run_chunk_subprocess(mod.ID, tier, seed, i, spec, timeout, tmp))
    finally:
        shutil.rmtree(tmp, ignore_errors=True)
    if hasattr(mod, "finalize"):
        try:
            mod.finalize(total)
        except Exception as e:  # noqa: BLE001
            total.inconclusive_because(f"finalize failed: {type(e).__name__}: {e}")
    return conclude(mod, total, tier, seed, len(specs), time.time() - t0)


def conclude(mod, total: Ctx, tier: str, seed: int, nchunks: int, wall: float) -> int:
    known = load_known()
    known_keys = {f["key"]: f for f in known.get("findings", []) if f.get("property") == mod.ID}
    viol, seen_known = [], collections.OrderedDict()
    for w in total.witnesses:
        if w["key"] in known_keys:
            seen_known.setdefault(w["key"], w)
        else:
            viol.append(w)
    # floors
    floors = mod.floors(tier) if hasattr(mod, "floors") else {}
    short = []
    if total.evals < floors.get("evals", 1):
        short.append(f"evaluations {total.evals} < floor {floors.get('evals', 1)}")
    if len(total.distinct) < floors.get("distinct", 2):
        short.append(f"distinct_nontrivial {len(total.distinct)} < floor {floors.get('distinct', 2)}")
    for c, m in floors.get("classes", {}).items():
        if total.classes.get(c, 0) < m:
            short.append(f"class {c}: {total.classes.get(c, 0)} < floor {m}")
    inconclusive = list(total.inconclusive) + short

    if viol:
        verdict = "violated"
    elif inconclusive:
        verdict = "inconclusive"
    else:
        verdict = "held"

    replay_paths = []
    shutil.rmtree(VERIF / "replays" / mod.ID, ignore_errors=True)
    if viol:
        rdir = VERIF / "replays" / mod.ID
        rdir.mkdir(parents=True, exist_ok=True)
        for i, w in enumerate(viol):
            p = rdir / f"{w['key'].replace('/', '_')[:60]}_{i}.json"
            p.write_text(json.dumps({"property": mod.ID, "seed": seed, "tier": tier, **w}, indent=1))
            replay_paths.append(str(p))

    wc = total.extra.get("witness_counts", {})
    coverage = {
        "evaluations": total.evals,
        "distinct_nontrivial": len(total.distinct),
        "rule": mod.RULE,
        "samples": total.samples[:MAX_SAMPLES] or [{"note": "no sample recorded"}],
        "chunks": nchunks,
        "classes_observed": dict(sorted(total.classes.items())),
        "floors": floors,
        "verdict": verdict,
        "known_findings_reobserved": {k: wc.get(k, 1) for k in seen_known},
        "known_finding_examples": [seen_known[k] for k in list(seen_known)[:8]],
        "violation_witnesses": viol[:10],
        "anomalies": dict(total.anomalies),
        "inconclusive_reasons": inconclusive[:10],
    }
    coverage["witness_counts_by_mechanism"] = wc
    for k, v in total.extra.items():
        if k != "witness_counts":
            coverage.setdefault(k, v)
    evidence = {
        "property_id": mod.ID,
        "tier": tier,
        "seed": seed,
        "level": mod.LEVEL,
        "coverage": coverage,
        "assumptions": list(getattr(mod, "ASSUMPTIONS", [])),
        "wall_s": round(wall, 2),
        "violations": len(viol),
    }
    (VERIF / "evidence").mkdir(exist_ok=True)
    (VERIF / "evidence" / f"{mod.ID}.json").write_text(json.dumps(evidence, indent=1, sort_keys=True) + "\n")

    for k, w in seen_known.items():
        print(f"KNOWN-FINDING: property={mod.ID} {k}: {known_keys[k].get('what', w['desc'])} (re-observed x{wc.get(k, 1)})")
    print(
        f"[{mod.ID}] tier={tier} seed={seed} verdict={verdict} evaluations={total.evals} "
        f"distinct={len(total.distinct)} classes={len(total.classes)} wall={wall:.1f}s"
    )
    if viol:
        for r in inconclusive[:5]:
            print(f"INCONCLUSIVE-PART: {r[:300]}", file=sys.stderr)
        for w, p in zip(viol, replay_paths):
            print(f"  witness key={w['key']}: {w['desc'][:300]}")
        for p in replay_paths[:1]:
            print(f"VIOLATION property={mod.ID} replay={p}")
        return 1
    if inconclusive:
        for r in inconclusive[:10]:
            print(f"INCONCLUSIVE: {r}", file=sys.stderr)
        return 2
    return 0
