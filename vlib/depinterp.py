"""Independent dynamic-dependence ("line provenance") interpreter for the slicing fragment (C09).

A program is an IR object (`Prog`) that renders itself to Python source *and* is executed by `Interp` on
concrete inputs.  The interpreter never looks at bytecode or at pynguin: it evaluates the IR and carries, with
every value, the set of SOURCE LINES the value depends on.

Fragment: ints/bools; + - * % and comparisons; not/and/or; if/elif/else; counter-bounded `while`;
`for i in range(e)`; break/continue; locals; one module global `G` (read, and written through `global G`);
attribute get/set on objects of the module's class `Box` (constructor assigns the fields; small methods);
list literal / index / append / subscript store; containers nested in containers (a list variable as element of a
list literal or as value of a dict literal with constant string keys), aliases of containers (`l2 = l1`, `l3 = n1[0]`),
nested subscript read `n1[i][j]` and nested subscript store `n1[i][j] = e`, replacement of a nested container
(`n1[i] = l2`); calls to helper functions and methods of the same module
(params, locals, ifs, early returns, return an expression); entry `f(a, b)` returns a variable.
Containers are objects with identity (`Lst`): every path to a container (variable, alias, element of another container)
reaches the same element cells, each cell carrying the provenance of its last store.

Dependences recorded (only those that are certain under the textbook definition of dynamic data / control
dependence, so the oracle UNDER-approximates):
  data      a statement instance depends on the statement instances that last defined each variable,
            attribute, list element or global it reads (including the reference through which an attribute /
            element is reached);
  control   a statement instance executed inside the taken branch of an if/elif/else, or inside an iteration of
            a while/for, depends on the predicate line of that construct and on what the predicate read
            (transitively for lexically enclosing constructs);
  call      statements of a callee depend on the call line (and the caller's control context); a value returned
            by a call depends on the callee's `return` line and on what was returned; parameters carry the
            provenance of the argument expressions.
Deliberately NOT recorded (potential / debatable dependences): branches not taken, statements after a
conditional `return` / `break` / `continue`, loop exit, the value of a `for` variable on the range bound,
arguments of a constructor on the created reference, the discarded result of an expression statement.
"""

from __future__ import annotations

import random

EMPTY = frozenset()


class P:
    """A pair of provenance sets: `full` (every certain dependence) and `sup` (the same, minus what the slicer documents
    as not handled or deliberately does not search for):
      * mutation through an untraced C method (list.append): tests/slicer/test_expected_failures.py::test_mod_untraced_object;
      * the definition of the base reference of an attribute load/store and of the container / index of a subscript
        store: slicer/stack/stacksimulation.py update_push_operations, "the use data for these will not be searched for,
        since this would widen the scope of the search for complete objects rather than only for the attribute thereof".
    Only `sup` is demanded; what is in `full` but not in `sup` is reported as anomaly when it is missing."""

    __slots__ = ("full", "sup")

    def __init__(self, full=EMPTY, sup=EMPTY):
        self.full, self.sup = full, sup

    def __or__(self, other):
        if isinstance(other, P):
            if not other.full:
                return self
            if not self.full:
                return other
            return P(self.full | other.full, self.sup | other.sup)
        return P(self.full | other, self.sup | other)


NOP = P()


# ------------------------------------------------------------------------------------------------ IR
class N:
    __slots__ = ("k", "a", "line")

    def __init__(self, k, *a):
        self.k, self.a, self.line = k, a, None


def C(v): return N("const", v)
def V(n): return N("var", n)
def GV(): return N("glob")
def Bin(op, l, r): return N("bin", op, l, r)
def Cmp(op, l, r): return N("cmp", op, l, r)
def Not(e): return N("not", e)
def And(l, r): return N("and", l, r)
def Or(l, r): return N("or", l, r)
def Attr(o, f): return N("attr", o, f)
def Idx(l, i): return N("idx", l, i)
def Idx2(l, i, j): return N("idx2", l, i, j)  # l[i][j]
def Call(fn, *args): return N("call", fn, list(args))
def MCall(o, m, *args): return N("mcall", o, m, list(args))


def Assign(n, e): return N("assign", n, e)
def Aug(n, op, e): return N("aug", n, op, e)
def GSet(e): return N("gset", e)
def GAug(op, e): return N("gaug", op, e)
def ASet(o, f, e): return N("aset", o, f, e)
def AAug(o, f, op, e): return N("aaug", o, f, op, e)
def New(n, *args): return N("new", n, list(args))
def LNew(n, *elems): return N("lnew", n, list(elems))
def LApp(n, e): return N("lapp", n, e)
def LSet(n, i, e): return N("lset", n, i, e)
def LSet2(n, i, j, e): return N("lset2", n, i, j, e)  # n[i][j] = e
def DNew(n, *pairs): return N("dnew", n, list(pairs))  # n = {"k": e, ...}
def If(c, body, orelse=(), elif_=False): return N("if", c, list(body), list(orelse), elif_)
def While(c, body): return N("while", c, list(body))
def For(v, n, body): return N("for", v, n, list(body))
def Ret(e): return N("ret", e)
def ExprS(e): return N("expr", e)
def Break(): return N("break")
def Continue(): return N("continue")


class Func:
    def __init__(self, name, params, body, writes_global=False, method=False):
        self.name, self.params, self.body, self.writes_global, self.method = name, list(params), list(body), writes_global, method
        self.def_line = None


BINOPS = {"+": lambda x, y: x + y, "-": lambda x, y: x - y, "*": lambda x, y: x * y, "%": lambda x, y: x % y}
CMPOPS = {"<": lambda x, y: x < y, "<=": lambda x, y: x <= y, ">": lambda x, y: x > y, ">=": lambda x, y: x >= y,
          "==": lambda x, y: x == y, "!=": lambda x, y: x != y}
FIELDS = ("x", "y")


def rx(e):
    k = e.k
    if k == "const":
        return repr(e.a[0])
    if k == "var":
        return e.a[0]
    if k == "glob":
        return "G"
    if k in ("bin", "cmp"):
        return f"({rx(e.a[1])} {e.a[0]} {rx(e.a[2])})"
    if k == "not":
        return f"(not {rx(e.a[0])})"
    if k in ("and", "or"):
        return f"({rx(e.a[0])} {k} {rx(e.a[1])})"
    if k == "attr":
        return f"{e.a[0]}.{e.a[1]}"
    if k == "idx":
        return f"{e.a[0]}[{rx(e.a[1])}]"
    if k == "idx2":
        return f"{e.a[0]}[{rx(e.a[1])}][{rx(e.a[2])}]"
    if k == "call":
        return f"{e.a[0]}({', '.join(rx(x) for x in e.a[1])})"
    if k == "mcall":
        return f"{e.a[0]}.{e.a[1]}({', '.join(rx(x) for x in e.a[2])})"
    raise ValueError(k)


def _reads_nested(e):
    """Does the expression (or any statement operand) contain a nested subscript read?"""
    if isinstance(e, N):
        return e.k == "idx2" or any(_reads_nested(x) for x in e.a)
    if isinstance(e, (list, tuple)):
        return any(_reads_nested(x) for x in e)
    return False


TAG = {"assign": "local-assign", "aug": "local-assign", "gset": "global-store", "gaug": "global-store", "aset": "attribute-store",
       "aaug": "attribute-store", "new": "object-creation", "lnew": "list-literal", "lapp": "list-append", "lset": "subscript-store",
       "lset2": "subscript-store", "dnew": "dict-literal", "while": "while", "for": "for", "ret": "return", "expr": "call-stmt", "break": "break", "continue": "continue"}


class Prog:
    """g_init: initial value of the module global; methods: Funcs of class Box (besides __init__); helpers; entry."""

    def __init__(self, g_init, methods, helpers, entry, name=""):
        self.g_init, self.methods, self.helpers, self.entry, self.name = g_init, list(methods), list(helpers), entry, name
        self.init = Func("__init__", ["self", "v", "w"], [ASet("self", "x", V("v")), ASet("self", "y", V("w"))], method=True)
        self.funcs = {f.name: f for f in self.helpers}
        self.funcs[entry.name] = entry
        self.mfuncs = {m.name: m for m in self.methods}
        self.tag: dict[int, str] = {}
        self.feat: dict[int, set[str]] = {}  # static features of a line (mechanism keys), e.g. "nested-subscript-read"
        self.text: list[str] = []
        self.constructs: set[str] = set()
        self._render()

    # ---- rendering ------------------------------------------------------------------------
    def _emit(self, indent, text, node=None, tag=None):
        self.text.append("    " * indent + text)
        ln = len(self.text)
        if node is not None:
            node.line = ln
        if tag is not None:
            self.tag[ln] = tag
            self.constructs.add(tag)
        if node is not None and node.k not in ("if", "while", "for") and _reads_nested([x for x in node.a]):
            self.feat.setdefault(ln, set()).add("nested-subscript-read")
        elif node is not None and node.k in ("if", "while") and _reads_nested(node.a[0]):
            self.feat.setdefault(ln, set()).add("nested-subscript-read")
        elif node is not None and node.k == "for" and _reads_nested(node.a[1]):
            self.feat.setdefault(ln, set()).add("nested-subscript-read")
        return ln

    def _block(self, body, ind, where):
        for s in body:
            k = s.k
            t = TAG.get(k)
            if where == "init" and k == "aset":
                t = "attribute-store-in-init"
            if k == "ret" and where == "entry":
                t = "return-entry"
            if k == "assign":
                self._emit(ind, f"{s.a[0]} = {rx(s.a[1])}", s, t)
            elif k == "aug":
                self._emit(ind, f"{s.a[0]} {s.a[1]}= {rx(s.a[2])}", s, t)
            elif k == "gset":
                self._emit(ind, f"G = {rx(s.a[0])}", s, t)
            elif k == "gaug":
                self._emit(ind, f"G {s.a[0]}= {rx(s.a[1])}", s, t)
            elif k == "aset":
                self._emit(ind, f"{s.a[0]}.{s.a[1]} = {rx(s.a[2])}", s, t)
            elif k == "aaug":
                self._emit(ind, f"{s.a[0]}.{s.a[1]} {s.a[2]}= {rx(s.a[3])}", s, t)
            elif k == "new":
                self._emit(ind, f"{s.a[0]} = Box({', '.join(rx(x) for x in s.a[1])})", s, t)
            elif k == "lnew":
                self._emit(ind, f"{s.a[0]} = [{', '.join(rx(x) for x in s.a[1])}]", s, t)
            elif k == "lapp":
                self._emit(ind, f"{s.a[0]}.append({rx(s.a[1])})", s, t)
            elif k == "lset":
                self._emit(ind, f"{s.a[0]}[{rx(s.a[1])}] = {rx(s.a[2])}", s, t)
            elif k == "lset2":
                self._emit(ind, f"{s.a[0]}[{rx(s.a[1])}][{rx(s.a[2])}] = {rx(s.a[3])}", s, t)
            elif k == "dnew":
                self._emit(ind, f"{s.a[0]} = {{{', '.join(f'{key!r}: {rx(x)}' for key, x in s.a[1])}}}", s, t)
            elif k == "if":
                self._if(s, ind, where, "if")
            elif k == "while":
                self._emit(ind, f"while {rx(s.a[0])}:", s, t + ("-with-break" if _has_break(s.a[1]) else ""))
                self._block(s.a[1], ind + 1, where)
            elif k == "for":
                self._emit(ind, f"for {s.a[0]} in range({rx(s.a[1])}):", s, t + ("-with-break" if _has_break(s.a[2]) else ""))
                self._block(s.a[2], ind + 1, where)
            elif k == "ret":
                self._emit(ind, f"return {rx(s.a[0])}", s, t)
            elif k == "expr":
                self._emit(ind, rx(s.a[0]), s, t)
            elif k in ("break", "continue"):
                self._emit(ind, k, s, t)
            else:
                raise ValueError(k)

    def _if(self, s, ind, where, word):
        self._emit(ind, f"{word} {rx(s.a[0])}:", s, word)
        self._block(s.a[1], ind + 1, where)
        orelse = s.a[2]
        if not orelse:
            return
        if len(orelse) == 1 and orelse[0].k == "if" and orelse[0].a[3]:
            self._if(orelse[0], ind, where, "elif")
        else:
            self._emit(ind, "else:")
            self._block(orelse, ind + 1, where)

    def _func(self, f, ind, where):
        f.def_line = self._emit(ind, f"def {f.name}({', '.join(f.params)}):")
        if f.writes_global:
            self._emit(ind + 1, "global G")
        self._block(f.body, ind + 1, where)

    def _render(self):
        self.g_line = self._emit(0, f"G = {self.g_init}", None, "global-init")
        self._emit(0, "")
        self._emit(0, "")
        self._emit(0, "class Box:")
        self._func(self.init, 1, "init")
        for m in self.methods:
            self._emit(0, "")
            self._func(m, 1, "method")
        for h in self.helpers:
            self._emit(0, "")
            self._emit(0, "")
            self._func(h, 0, "helper")
        self._emit(0, "")
        self._emit(0, "")
        self._func(self.entry, 0, "entry")
        self.source = "\n".join(self.text) + "\n"


# ------------------------------------------------------------------------------------------------ interpreter
class Val:
    """A value with its provenance.  For a cell of a container additionally: `t` the time (statement count) of the store
    that filled the cell, `via` how it was filled ("lit" literal, "var" `name[i] = e`, "nest" `name[i][j] = e`, "app")."""

    __slots__ = ("v", "prov", "src", "t", "via")

    def __init__(self, v, prov=NOP, src=EMPTY):
        self.v, self.prov, self.src, self.t, self.via = v, prov, src, 0, "lit"


class Obj:
    __slots__ = ("fields",)

    def __init__(self):
        self.fields = {}


class Lst:
    """A list (items: list) or a dict with constant keys (items: dict) - one object per evaluation of a literal, shared by
    every alias.  last_store: time of the last traced subscript store into this object (through whatever path)."""

    __slots__ = ("items", "last_store")

    def __init__(self, items=None):
        self.items = [] if items is None else items
        self.last_store = 0


class _Ret(Exception):
    def __init__(self, val):
        self.val = val


class _Break(Exception):
    pass


class _Continue(Exception):
    pass


class HarnessError(Exception):
    """The IR program is ill-formed or does not terminate: a generator bug, never a verdict."""


class Result:
    __slots__ = ("value", "g_after", "need", "need_supported", "direct", "executed", "root", "ret", "features", "hidden")


class Interp:
    MAX_STEPS = 20000

    def __init__(self, prog: Prog):
        self.p = prog

    def run(self, a, b, a_val=None, keep_state=False) -> Result:
        """Execute f(a, b).  a_val: a Val for the first argument (a second statement of a test consuming an earlier
        result); keep_state: keep the module global as the previous run left it."""
        p = self.p
        if not keep_state:
            self.G = Val(p.g_init, NOP | {p.g_line}, frozenset({(p.g_line, "data")}))
        self.direct: dict[int, dict[int, str]] = {}
        self.executed: set[int] = set()
        self.shapes: set[tuple[str, int, int]] = set()  # (feature, read line, store line) of container reads
        self.hidden: set[int] = set()
        self.steps = 0
        self.depth = 0
        rv = self._call(p.entry, [a_val if a_val is not None else Val(a), Val(b)], (NOP, EMPTY), None)
        r = Result()
        r.value, r.g_after, r.ret = rv.v, self.G.v, rv
        r.need = set(rv.prov.full)
        r.need_supported = set(rv.prov.sup)
        r.direct = self.direct
        r.executed = self.executed
        r.root = next(iter(rv.src))[0]  # root of the dependence graph: the entry's return line
        # a shape counts when the returned value depends on the read and (as a demanded dependence) on the store
        r.features = {f for f, rl, sl in self.shapes if rl in r.need_supported and sl in r.need_supported}
        # store lines whose cell was read through a nested subscript while a LATER store into the same container (made
        # after the container was nested) exists: certain dependences, demanded; the set only refines the witness key
        r.hidden = {sl for sl in self.hidden if sl in r.need_supported}
        return r

    # ---- helpers ----------------------------------------------------------------------------
    def _dep(self, line, src):
        if not src:
            return
        d = self.direct.setdefault(line, {})
        for to, kind in src:
            if to != line:
                d.setdefault(to, kind)

    def _call(self, f, args, ctx, line):
        self.depth += 1
        if self.depth > 12:
            raise HarnessError("call depth")
        env = dict(zip(f.params, args))
        ctx2 = ctx if line is None else (ctx[0] | {line}, frozenset({(line, "call-site")}))
        try:
            self._block(f.body, env, ctx2)
        except _Ret as r:
            return r.val
        finally:
            self.depth -= 1
        return Val(None)

    def _block(self, body, env, ctx):
        for s in body:
            self._stmt(s, env, ctx)

    def _cell(self, val, via):
        val.t, val.via = self.steps, via
        return val

    def _def(self, val, extra_prov, ctx, line):
        return Val(val.v, val.prov | extra_prov | ctx[0] | {line}, frozenset({(line, "data")}))

    def _stmt(self, s, env, ctx):  # noqa: C901
        self.steps += 1
        if self.steps > self.MAX_STEPS:
            raise HarnessError("step budget")
        k, ln = s.k, s.line
        self.executed.add(ln)
        self._dep(ln, ctx[1])
        if k == "assign":
            val = self._ev(s.a[1], env, ctx, ln)
            self._dep(ln, val.src)
            env[s.a[0]] = self._def(val, NOP, ctx, ln)
        elif k == "aug":
            old = env[s.a[0]]
            val = self._ev(s.a[2], env, ctx, ln)
            self._dep(ln, old.src | val.src)
            env[s.a[0]] = self._def(Val(BINOPS[s.a[1]](old.v, val.v), old.prov | val.prov), NOP, ctx, ln)
        elif k == "gset":
            val = self._ev(s.a[0], env, ctx, ln)
            self._dep(ln, val.src)
            self.G = self._def(val, NOP, ctx, ln)
        elif k == "gaug":
            old = self.G
            val = self._ev(s.a[1], env, ctx, ln)
            self._dep(ln, old.src | val.src)
            self.G = self._def(Val(BINOPS[s.a[0]](old.v, val.v), old.prov | val.prov), NOP, ctx, ln)
        elif k == "aset":
            val = self._ev(s.a[2], env, ctx, ln)
            o = env[s.a[0]]
            self._dep(ln, val.src | o.src)
            o.v.fields[s.a[1]] = self._def(val, P(o.prov.full), ctx, ln)
        elif k == "aaug":
            o = env[s.a[0]]
            old = o.v.fields[s.a[1]]
            val = self._ev(s.a[3], env, ctx, ln)
            self._dep(ln, val.src | o.src | old.src)
            o.v.fields[s.a[1]] = self._def(Val(BINOPS[s.a[2]](old.v, val.v), old.prov | val.prov), P(o.prov.full), ctx, ln)
        elif k == "new":
            args = [self._ev(x, env, ctx, ln) for x in s.a[1]]
            ref = Val(Obj(), ctx[0] | {ln}, frozenset({(ln, "data")}))
            self._call(self.p.init, [ref, *args], ctx, ln)
            env[s.a[0]] = ref
        elif k == "lnew":
            lst = Lst()
            for x in s.a[1]:
                val = self._ev(x, env, ctx, ln)
                self._dep(ln, val.src)
                lst.items.append(self._cell(self._def(val, NOP, ctx, ln), "lit"))
            env[s.a[0]] = Val(lst, ctx[0] | {ln}, frozenset({(ln, "data")}))
        elif k == "dnew":
            dct = Lst({})
            for key, x in s.a[1]:
                val = self._ev(x, env, ctx, ln)
                self._dep(ln, val.src)
                dct.items[key] = self._cell(self._def(val, NOP, ctx, ln), "lit")
            env[s.a[0]] = Val(dct, ctx[0] | {ln}, frozenset({(ln, "data")}))
        elif k == "lapp":
            lv = env[s.a[0]]
            val = self._ev(s.a[1], env, ctx, ln)
            self._dep(ln, val.src | lv.src)
            d = self._def(val, lv.prov, ctx, ln)
            # mutation through an untraced C method: documented limitation of the slicer (test_mod_untraced_object)
            lv.v.items.append(self._cell(Val(d.v, P(d.prov.full, EMPTY), d.src), "app"))
        elif k == "lset":
            val = self._ev(s.a[2], env, ctx, ln)
            lv = env[s.a[0]]
            iv = self._ev(s.a[1], env, ctx, ln)
            self._dep(ln, val.src | lv.src | iv.src)
            lv.v.items[iv.v] = self._cell(self._def(val, P((lv.prov | iv.prov).full), ctx, ln), "var")
            lv.v.last_store = self.steps
        elif k == "lset2":
            val = self._ev(s.a[3], env, ctx, ln)
            ov = env[s.a[0]]
            iv = self._ev(s.a[1], env, ctx, ln)
            ref = ov.v.items[iv.v]
            jv = self._ev(s.a[2], env, ctx, ln)
            self._dep(ln, val.src | ov.src | iv.src | ref.src | jv.src)
            # the path to the container (outer variable, its cell, both indices) is prepared for a store: not searched for
            path = ov.prov | iv.prov | ref.prov | jv.prov
            ref.v.items[jv.v] = self._cell(self._def(val, P(path.full), ctx, ln), "nest")
            ref.v.last_store = self.steps
        elif k == "if":
            c = self._ev(s.a[0], env, ctx, ln)
            self._dep(ln, c.src)
            inner = (ctx[0] | c.prov | {ln}, frozenset({(ln, "control")}))
            self._block(s.a[1] if c.v else s.a[2], env, inner)
        elif k == "while":
            n = 0
            while True:
                self.executed.add(ln)
                c = self._ev(s.a[0], env, ctx, ln)
                self._dep(ln, c.src)
                if not c.v:
                    break
                n += 1
                if n > 64:
                    raise HarnessError("while fuel")
                inner = (ctx[0] | c.prov | {ln}, frozenset({(ln, "control")}))
                try:
                    self._block(s.a[1], env, inner)
                except _Break:
                    break
                except _Continue:
                    continue
        elif k == "for":
            nv = self._ev(s.a[1], env, ctx, ln)
            self._dep(ln, nv.src)
            inner = (ctx[0] | nv.prov | {ln}, frozenset({(ln, "control")}))
            for j in range(nv.v):
                env[s.a[0]] = Val(j, ctx[0] | {ln}, frozenset({(ln, "data")}))
                try:
                    self._block(s.a[2], env, inner)
                except _Break:
                    break
                except _Continue:
                    continue
        elif k == "ret":
            val = self._ev(s.a[0], env, ctx, ln)
            self._dep(ln, val.src)
            raise _Ret(Val(val.v, val.prov | ctx[0] | {ln}, frozenset({(ln, "call-return")})))
        elif k == "expr":
            self._ev(s.a[0], env, ctx, ln)
        elif k == "break":
            raise _Break
        elif k == "continue":
            raise _Continue
        else:
            raise HarnessError(k)

    def _ev(self, e, env, ctx, ln):  # noqa: C901
        k = e.k
        if k == "const":
            return Val(e.a[0])
        if k == "var":
            return env[e.a[0]]
        if k == "glob":
            return self.G
        if k == "bin" or k == "cmp":
            l = self._ev(e.a[1], env, ctx, ln)
            r = self._ev(e.a[2], env, ctx, ln)
            return Val((BINOPS if k == "bin" else CMPOPS)[e.a[0]](l.v, r.v), l.prov | r.prov, l.src | r.src)
        if k == "not":
            x = self._ev(e.a[0], env, ctx, ln)
            return Val(not x.v, x.prov, x.src)
        if k == "and" or k == "or":
            l = self._ev(e.a[0], env, ctx, ln)
            if bool(l.v) == (k == "or"):
                return l
            r = self._ev(e.a[1], env, ctx, ln)
            return Val(r.v, l.prov | r.prov, l.src | r.src)
        if k == "attr":
            o = env[e.a[0]]
            f = o.v.fields[e.a[1]]
            return Val(f.v, P(o.prov.full) | f.prov, o.src | f.src)
        if k == "idx":
            lv = env[e.a[0]]
            iv = self._ev(e.a[1], env, ctx, ln)
            x = lv.v.items[iv.v]
            if x.via == "nest" and x.src:
                self.shapes.add(("alias-subscript-read-after-nested-store", ln, next(iter(x.src))[0]))
            return Val(x.v, lv.prov | iv.prov | x.prov, lv.src | iv.src | x.src)
        if k == "idx2":
            ov = env[e.a[0]]
            iv = self._ev(e.a[1], env, ctx, ln)
            ref = ov.v.items[iv.v]  # the cell of the outer container: a reference to the inner one
            jv = self._ev(e.a[2], env, ctx, ln)
            x = ref.v.items[jv.v]
            sl = next(iter(x.src))[0] if x.src else None
            # Everything the read touches is demanded: both subscripts are plain loads (operands searched for), the cell of
            # the outer container is found like a flat cell, and the cell of the inner one is defined by its last store
            # whichever path made it.  The shapes only label the case (floors, witness keys): a store made after nesting and
            # followed by another store into the same inner container is the one the slicer lost before repo fix a6c67b9
            # (one pending use per container, consumed by the first store met going backwards).
            if sl is not None and x.via != "app":
                if x.t < ref.t:
                    self.shapes.add(("nested-subscript-read-of-store-before-nesting", ln, sl))
                elif x.via == "var":
                    self.shapes.add(("nested-subscript-read-after-alias-store", ln, sl))
                elif x.via == "nest":
                    self.shapes.add(("nested-subscript-read-after-nested-store", ln, sl))
                if x.t > ref.t and x.t < ref.v.last_store:
                    self.hidden.add(sl)
                    self.shapes.add(("nested-subscript-read-of-store-followed-by-store-to-same-container", ln, sl))
            return Val(x.v, ov.prov | iv.prov | ref.prov | jv.prov | x.prov, ov.src | iv.src | ref.src | jv.src | x.src)
        if k == "call":
            args = [self._ev(x, env, ctx, ln) for x in e.a[1]]
            return self._call(self.p.funcs[e.a[0]], args, ctx, ln)
        if k == "mcall":
            o = env[e.a[0]]
            args = [self._ev(x, env, ctx, ln) for x in e.a[2]]
            return self._call(self.p.mfuncs[e.a[1]], [o, *args], ctx, ln)
        raise HarnessError(k)


def frontier(res: Result, root: int, checked: set[int], need=None):
    """The first missing line on every dependence path from the root that otherwise runs through checked lines:
    [(missing_line, kind, from_line)].  Lines behind a missing line are consequences and are not reported."""
    need = res.need if need is None else need
    out, seen, stack = [], {root}, [root]
    while stack:
        frm = stack.pop()
        for to, kind in sorted(res.direct.get(frm, {}).items()):
            if to not in need or to in seen:
                continue
            seen.add(to)
            if to in checked:
                stack.append(to)
            else:
                out.append((to, kind, frm))
    missing = need - checked
    if not out and missing:  # cannot happen when `direct` covers `need`; keep the verdict, lose only the attribution
        out = [(min(missing), "data", None)]
    return sorted(out)


def mechanism(prog: Prog, line: int, kind: str, frm=None, hidden=()) -> str:
    tag = prog.tag.get(line, "unknown")
    if kind == "data" and tag == "subscript-store" and frm is not None and "nested-subscript-read" in prog.feat.get(frm, ()):
        # the cell was read through `outer[i][j]`: the inner container is not loaded from a variable by the reading line
        if line in hidden:
            return "missing-dependence:data:subscript-store:read-through-nested-subscript:hidden-by-later-store-to-same-container"
        return "missing-dependence:data:subscript-store:read-through-nested-subscript"
    if frm is not None and prog.tag.get(frm) == "subscript-store":
        # the store line is a checked line for another reason (e.g. the loop's JUMP_BACKWARD carries its line number),
        # but the store instruction itself was not followed
        return "missing-dependence:dependences-of-subscript-store"
    if kind == "data" and frm is not None and prog.tag.get(frm, "").startswith("while") and tag in ("local-assign", "global-store", "attribute-store"):
        # the predicate of a later iteration reads what the loop body defined
        return f"missing-dependence:loop-carried:{tag}-read-by-while-predicate"
    if kind == "control":
        return f"missing-dependence:control:{tag}"
    if kind == "call-return":
        return "missing-dependence:call-return"
    if kind == "call-site":
        return f"missing-dependence:call-site:{tag}"
    return f"missing-dependence:data:{tag}"


# ------------------------------------------------------------------------------------------------ generator
class _Gen:
    def __init__(self, rng):
        self.rng = rng
        self.helpers: list[Func] = []
        self.methods: list[Func] = []
        self.nint = self.nobj = self.nlst = self.nctr = self.nfor = self.nnst = 0
        self.cur = None  # "entry" | "helper" | "method"
        self.allow_g_write = False
        self.callable_helpers: list[Func] = []
        self.budget = 0

    # ---- expressions --------------------------------------------------------------------------
    def int_expr(self, env, depth=0):  # noqa: C901
        r = self.rng
        roll = r.random()
        if depth >= 2 or roll < 0.22:
            pool = sorted(env["int"])
            if pool and r.random() < 0.8:
                return V(r.choice(pool))
            return C(r.randint(0, 6))
        if roll < 0.34:
            return GV()
        if roll < 0.46 and env["obj"]:
            return Attr(r.choice(sorted(env["obj"])), r.choice(FIELDS))
        if roll < 0.58 and env["lst"]:
            name = r.choice(sorted(env["lst"]))
            n = env["lst"][name]
            if r.random() < 0.4:
                return Idx(name, C(r.choice([r.randrange(n), -1])))
            return Idx(name, Bin("%", self.int_expr(env, depth + 1), C(n)))
        if roll < 0.64 and env["nst"]:
            return self.nested_read(env, depth)
        if roll < 0.68 and self.callable_helpers and self.budget > 0:
            self.budget -= 1
            h = r.choice(self.callable_helpers)
            return Call(h.name, *[self.int_expr(env, depth + 1) for _ in h.params])
        if roll < 0.74 and self.methods and env["obj"] and self.cur == "entry" and self.budget > 0:
            self.budget -= 1
            m = r.choice(self.methods)
            return MCall(r.choice(sorted(env["obj"])), m.name, *[self.int_expr(env, depth + 1) for _ in m.params[1:]])
        op = r.choice(["+", "+", "-", "*", "%"])
        left = self.int_expr(env, depth + 1)
        if op == "%":
            return Bin("%", left, C(r.randint(2, 5)))
        if op == "*":
            return Bin("*", left, C(r.randint(2, 3))) if r.random() < 0.7 else Bin("*", left, self.small(env))
        return Bin(op, left, self.int_expr(env, depth + 1))

    def nested_read(self, env, depth=1, name=None, slot=None):
        """`n1[0][j]` / `d1['k'][j]` (or, now and then, an int slot of the outer container)."""
        r = self.rng
        name = name or r.choice(sorted(env["nst"]))
        info = env["nst"][name]
        if slot is None and info["ints"] and r.random() < 0.15:
            return Idx(name, C(r.choice(info["ints"])))
        slot = slot if slot is not None else r.choice(sorted(info["slots"], key=repr))
        n = info["slots"][slot]
        return Idx2(name, C(slot), self.elem_index(env, n, depth))

    def elem_index(self, env, n, depth=1):
        r = self.rng
        if r.random() < 0.6:
            return C(r.choice([r.randrange(n), r.randrange(n), -1]))
        return Bin("%", self.int_expr(env, depth + 1), C(n))

    def small(self, env):
        pool = sorted(env["int"])
        return Bin("%", V(self.rng.choice(pool)), C(4)) if pool else C(2)

    def cond(self, env, depth=0):
        r = self.rng
        roll = r.random()
        if depth == 0 and roll < 0.12:
            return Not(self.cond(env, 1))
        if depth == 0 and roll < 0.3:
            return (And if r.random() < 0.5 else Or)(self.cond(env, 1), self.cond(env, 1))
        return Cmp(r.choice(list(CMPOPS)), self.int_expr(env, 1), self.int_expr(env, 1))

    # ---- statements ---------------------------------------------------------------------------
    def fresh_int(self):
        self.nint += 1
        return f"x{self.nint}"

    def target_int(self, env):
        pool = sorted(n for n in env["int"] if n[0] == "x")
        if pool and self.rng.random() < 0.6:
            return self.rng.choice(pool)
        return self.fresh_int()

    def block(self, env, n, depth, in_loop):
        out = []
        for _ in range(n):
            out.extend(self.stmt(env, depth, in_loop))
        return out

    @staticmethod
    def scope(env):
        return {"int": set(env["int"]), "obj": set(env["obj"]), "lst": dict(env["lst"]),
                "nst": {k: {"slots": dict(v["slots"]), "ints": list(v["ints"])} for k, v in env["nst"].items()}}

    # ---- nested containers and aliases ---------------------------------------------------------
    def fresh_lst(self):
        self.nlst += 1
        return f"l{self.nlst}"

    def nest_stmt(self, env, must=None):
        """`n1 = [l1, e, l2]` or `d1 = {'k': l1, 'j': e}`: list variables become elements of another container."""
        r = self.rng
        pool = sorted(env["lst"])
        picks = r.sample(pool, min(len(pool), r.randint(1, 2)))
        if must is not None and must not in picks:
            picks[0] = must
        self.nnst += 1
        elems = [("lst", p) for p in picks] + [("int", None)] * r.randint(0, 1)
        r.shuffle(elems)
        slots, ints, items = {}, [], []
        as_dict = r.random() < 0.4
        keys = ["k", "j", "u"] if as_dict else [0, 1, 2]
        for key, (kind, p) in zip(keys, elems):
            if kind == "lst":
                slots[key] = env["lst"][p]
                items.append((key, V(p)))
            else:
                ints.append(key)
                items.append((key, self.int_expr(env, 1)))
        name = f"d{self.nnst}" if as_dict else f"n{self.nnst}"
        env["nst"][name] = {"slots": slots, "ints": ints}
        return DNew(name, *items) if as_dict else LNew(name, *[x for _, x in items])

    def nested_stmt(self, env):
        """One statement around nested containers: nest, alias, store through either path, replace an inner container."""
        r = self.rng
        roll = r.random()
        if not env["nst"] or roll < 0.22:
            return [self.nest_stmt(env)]
        name = r.choice(sorted(env["nst"]))
        info = env["nst"][name]
        slot = r.choice(sorted(info["slots"], key=repr))
        n = info["slots"][slot]
        if roll < 0.40:  # alias through a variable or through the outer container
            new = self.fresh_lst()
            if r.random() < 0.5:
                src = r.choice(sorted(env["lst"]))
                s = Assign(new, V(src))
                env["lst"][new] = env["lst"][src]
            else:
                s = Assign(new, Idx(name, C(slot)))
                env["lst"][new] = n
            return [s]
        if roll < 0.62:  # store through the nested path
            return [LSet2(name, C(slot), self.elem_index(env, n), self.int_expr(env, 1))]
        if roll < 0.90:  # store through a variable (most of them alias a nested container)
            v = r.choice(sorted(env["lst"]))
            return [LSet(v, self.elem_index(env, env["lst"][v]), self.int_expr(env, 1))]
        cands = sorted(v for v in env["lst"] if env["lst"][v] >= n)  # replace the inner container (never a shorter one)
        if cands:
            return [LSet(name, C(slot), V(r.choice(cands)))]
        return [LSet2(name, C(slot), self.elem_index(env, n), self.int_expr(env, 1))]

    def stmt(self, env, depth, in_loop):  # noqa: C901
        r = self.rng
        if env["lst"] and self.cur != "method" and r.random() < 0.12:
            return self.nested_stmt(env)
        roll = r.random()
        if roll < 0.24:
            t = self.target_int(env)
            if t in env["int"] and r.random() < 0.3:
                s = Aug(t, r.choice(["+", "-", "*"]), self.int_expr(env, 1))
            else:
                s = Assign(t, self.int_expr(env))
            env["int"].add(t)
            return [s]
        if roll < 0.32 and self.allow_g_write:
            return [GAug(r.choice(["+", "-"]), self.int_expr(env, 1)) if r.random() < 0.4 else GSet(self.int_expr(env))]
        if roll < 0.42 and env["obj"]:
            o = r.choice(sorted(env["obj"]))
            if r.random() < 0.3:
                return [AAug(o, r.choice(FIELDS), r.choice(["+", "-"]), self.int_expr(env, 1))]
            return [ASet(o, r.choice(FIELDS), self.int_expr(env))]
        if roll < 0.48 and self.cur == "entry":
            if env["obj"] and r.random() < 0.35:
                self.nobj += 1
                name = f"o{self.nobj}"
                s = Assign(name, V(r.choice(sorted(env["obj"]))))  # alias
            else:
                self.nobj += 1
                name = f"o{self.nobj}"
                s = New(name, self.int_expr(env, 1), self.int_expr(env, 1))
            env["obj"].add(name)
            return [s]
        if roll < 0.54 and self.cur != "method":
            self.nlst += 1
            name = f"l{self.nlst}"
            k = r.randint(1, 3)
            s = LNew(name, *[self.int_expr(env, 1) for _ in range(k)])
            env["lst"][name] = k
            return [s]
        if roll < 0.60 and env["lst"]:
            return [LApp(r.choice(sorted(env["lst"])), self.int_expr(env, 1))]
        if roll < 0.66 and env["lst"]:
            name = r.choice(sorted(env["lst"]))
            n = env["lst"][name]
            idx = C(r.randrange(n)) if r.random() < 0.5 else Bin("%", self.int_expr(env, 1), C(n))
            return [LSet(name, idx, self.int_expr(env, 1))]
        if roll < 0.70 and self.callable_helpers and self.budget > 0 and self.cur == "entry":
            self.budget -= 1
            h = r.choice(self.callable_helpers)
            return [ExprS(Call(h.name, *[self.int_expr(env, 1) for _ in h.params]))]
        if roll < 0.74 and in_loop:
            inner = [Break()] if (in_loop == "while" or r.random() < 0.5) else [Continue()]
            return [If(self.cond(env), inner)]
        if depth >= 2:
            t = self.target_int(env)
            s = Assign(t, self.int_expr(env))
            env["int"].add(t)
            return [s]
        if roll < 0.88:
            return [self.if_stmt(env, depth, in_loop)]
        if roll < 0.94:
            self.nctr += 1
            c = f"c{self.nctr}"
            bound = C(r.randint(1, 3)) if r.random() < 0.4 else Bin("%", self.int_expr(env, 1), C(r.randint(2, 4)))
            cnd = Cmp("<", V(c), bound)
            if r.random() < 0.25:
                cnd = And(cnd, self.cond(env, 1))
            inner = self.scope(env)
            inner["int"].add(c)
            body = self.block(inner, r.randint(1, 2), depth + 1, "while")
            inc = Aug(c, "+", C(1)) if r.random() < 0.5 else Assign(c, Bin("+", V(c), C(1)))
            # the increment comes first when the body may `continue`-free break only; keep it last (break is fine)
            env["int"].add(c)
            return [Assign(c, C(0)), While(cnd, [*body, inc])]
        self.nfor += 1
        i = f"i{self.nfor}"
        bound = C(r.randint(1, 3)) if r.random() < 0.4 else Bin("%", self.int_expr(env, 1), C(r.randint(2, 4)))
        inner = self.scope(env)
        inner["int"].add(i)
        body = self.block(inner, r.randint(1, 2), depth + 1, "for")
        return [For(i, bound, body)]

    def if_stmt(self, env, depth, in_loop):
        r = self.rng
        c = self.cond(env)
        body = self.block(self.scope(env), r.randint(1, 2), depth + 1, in_loop)
        roll = r.random()
        if roll < 0.35:
            return If(c, body)
        if roll < 0.75:
            return If(c, body, self.block(self.scope(env), r.randint(1, 2), depth + 1, in_loop))
        c2 = self.cond(env)
        b2 = self.block(self.scope(env), r.randint(1, 2), depth + 1, in_loop)
        tail = self.block(self.scope(env), r.randint(1, 2), depth + 1, in_loop) if r.random() < 0.6 else []
        return If(c, body, [If(c2, b2, tail, elif_=True)])

    # ---- functions ----------------------------------------------------------------------------
    def helper(self, idx):
        r = self.rng
        self.cur = "helper"
        self.allow_g_write = r.random() < 0.45
        self.callable_helpers = list(self.helpers)  # only earlier helpers: no recursion
        self.budget = 1
        env = {"int": {"p", "q"}, "obj": set(), "lst": {}, "nst": {}}
        body = []
        if r.random() < 0.7:
            body.append(Assign("t", self.int_expr(env)))
            env["int"].add("t")
        if r.random() < 0.35:
            body.append(If(self.cond(env), [Ret(self.int_expr(env, 1))]))
        body.extend(self.block(env, r.randint(1, 2), 1, None))
        if self.allow_g_write and not any(s.k in ("gset", "gaug") for s in body):
            body.append(GAug("+", self.int_expr(env, 1)))
        body.append(Ret(self.int_expr(env)))
        writes = _writes_global(body)
        return Func(f"h{idx}", ["p", "q"], body, writes_global=writes)

    def method(self, idx):
        r = self.rng
        self.cur = "method"
        self.allow_g_write = False
        self.callable_helpers = []
        self.budget = 0
        env = {"int": {"d"}, "obj": {"self"}, "lst": {}, "nst": {}}
        body = self.block(env, r.randint(1, 2), 2, None)
        if not any(s.k in ("aset", "aaug") for s in body) and r.random() < 0.7:
            body.append(AAug("self", r.choice(FIELDS), "+", V("d")))
        body.append(Ret(self.int_expr(env)))
        return Func(f"m{idx}", ["self", "d"], body, method=True)

    def entry(self):
        r = self.rng
        self.cur = "entry"
        self.allow_g_write = True
        self.callable_helpers = list(self.helpers)
        self.budget = 4
        env = {"int": {"a", "b"}, "obj": set(), "lst": {}, "nst": {}}
        body = []
        idiom = r.random() < 0.4  # nested container + store through an alias (before / after nesting) + nested read
        if r.random() < 0.8:
            self.nobj += 1
            body.append(New(f"o{self.nobj}", self.int_expr(env, 1), self.int_expr(env, 1)))
            env["obj"].add(f"o{self.nobj}")
        if r.random() < 0.7 or idiom:
            self.nlst += 1
            k = r.randint(2, 3)
            body.append(LNew(f"l{self.nlst}", *[self.int_expr(env, 1) for _ in range(k)]))
            env["lst"][f"l{self.nlst}"] = k
        hot = None
        if idiom:
            inner = f"l{self.nlst}"
            k = env["lst"][inner]
            if r.random() < 0.4:  # a store before nesting
                body.append(LSet(inner, self.elem_index(env, k), self.int_expr(env, 1)))
            if r.random() < 0.4:  # a sibling container
                other = self.fresh_lst()
                body.append(LNew(other, *[self.int_expr(env, 1) for _ in range(2)]))
                env["lst"][other] = 2
            nest = self.nest_stmt(env, must=inner)
            body.append(nest)
            outer = nest.a[0]
            cells = nest.a[1] if nest.k == "dnew" else list(enumerate(nest.a[1]))
            hot = (outer, next(key for key, x in cells if x.k == "var" and x.a[0] == inner), inner, r.randrange(k))
        body.extend(self.block(env, r.randint(3, 6), 0, None))
        if hot is not None and r.random() < 0.75:  # the store through the alias, after nesting
            outer, slot, inner, j = hot
            k = env["lst"][inner]
            st = LSet(inner, C(j), self.int_expr(env, 1))
            if r.random() < 0.3:
                st = If(self.cond(env), [st], [LSet2(outer, C(slot), C(j), self.int_expr(env, 1))] if r.random() < 0.5 else [])
            body.append(st)
            if r.random() < 0.2:  # a later store to a sibling cell of the same container
                body.append(LSet(inner, C((j + 1) % k), self.int_expr(env, 1)))
        # sink: combine several live things so that the returned value has a rich dependence set
        terms = [V(n) for n in r.sample(sorted(env["int"]), min(len(env["int"]), r.randint(1, 3)))]
        if r.random() < 0.6:
            terms.append(GV())
        for o in sorted(env["obj"]):
            if r.random() < 0.6:
                terms.append(Attr(o, r.choice(FIELDS)))
        for name in sorted(env["lst"]):
            if r.random() < 0.6:
                terms.append(Idx(name, C(r.choice([0, -1, env["lst"][name] - 1]))))
        for name in sorted(env["nst"]):
            if hot is not None and name == hot[0]:
                terms.append(Idx2(name, C(hot[1]), C(hot[3])))
            elif r.random() < 0.7:
                terms.append(self.nested_read(env, 1, name=name))
        e = terms[0]
        for t in terms[1:]:
            e = Bin(r.choice(["+", "-"]), e, t)
        body.append(Assign("z", e))
        body.append(Ret(V("z")))
        return Func("f", ["a", "b"], body, writes_global=_writes_global(body))


def _has_break(body):
    """A `break` that belongs to this loop (not to a nested loop)."""
    for s in body:
        if s.k == "break":
            return True
        if s.k == "if" and (_has_break(s.a[1]) or _has_break(s.a[2])):
            return True
    return False


def _writes_global(body):
    for s in body:
        if s.k in ("gset", "gaug"):
            return True
        if s.k == "if" and (_writes_global(s.a[1]) or _writes_global(s.a[2])):
            return True
        if s.k == "while" and _writes_global(s.a[1]):
            return True
        if s.k == "for" and _writes_global(s.a[2]):
            return True
    return False


def generate(seed: int, index: int) -> Prog:
    rng = random.Random(f"c09-fragment-{seed}-{index}")
    g = _Gen(rng)
    for i in range(rng.randint(0, 1)):
        g.methods.append(g.method(i))
    for i in range(rng.randint(1, 2)):
        g.helpers.append(g.helper(i))
    entry = g.entry()
    return Prog(rng.randint(1, 5), g.methods, g.helpers, entry, name=f"gen-{seed}-{index}")


def inputs_for(seed: int, index: int, n: int = 3):
    rng = random.Random(f"c09-inputs-{seed}-{index}")
    out = []
    while len(out) < n:
        ab = (rng.randint(-3, 7), rng.randint(-3, 7))
        if ab not in out:
            out.append(ab)
    return out


# ------------------------------------------------------------------------------------------------ directed programs
def _entry(*body, g=False):
    body = list(body)
    return Func("f", ["a", "b"], body, writes_global=_writes_global(body) or g)


def directed() -> list[tuple[Prog, list[tuple[int, int]]]]:
    """One hand-written program per construct (each with an unused assignment and an untaken branch nearby)."""
    out = []

    def add(name, entry, helpers=(), methods=(), g=3, inputs=((5, 1), (1, 5), (2, 2))):
        out.append((Prog(g, methods, helpers, entry, name=f"directed-{name}"), list(inputs)))

    add("if-else", _entry(
        Assign("x1", C(1)), Assign("x2", Bin("*", V("b"), C(5))),
        If(Cmp(">", V("a"), V("b")), [Assign("x1", Bin("+", V("a"), C(2)))], [Assign("x1", Bin("-", V("b"), C(1)))]),
        Assign("z", V("x1")), Ret(V("z"))))
    add("elif", _entry(
        Assign("x1", C(0)),
        If(Cmp(">", V("a"), C(3)), [Assign("x1", C(10))],
           [If(Cmp(">", V("b"), C(3)), [Assign("x1", C(20))], [Assign("x1", Bin("+", V("a"), V("b")))], elif_=True)]),
        Assign("x3", C(9)), Assign("z", Bin("+", V("x1"), C(1))), Ret(V("z"))), inputs=((1, 5), (2, 2), (3, 4)))
    add("nested-if", _entry(
        Assign("x1", C(0)), Assign("x2", Bin("-", V("a"), V("b"))),
        If(Cmp(">", V("x2"), C(0)), [If(Cmp("<", V("b"), C(3)), [Assign("x1", V("x2"))], [Assign("x1", C(4))])], [Assign("x4", C(1))]),
        Assign("z", V("x1")), Ret(V("z"))))
    add("while", _entry(
        Assign("x1", C(0)), Assign("c1", C(0)), Assign("x2", C(5)),
        While(Cmp("<", V("c1"), Bin("%", V("a"), C(4))), [Assign("x1", Bin("+", V("x1"), V("b"))), Aug("c1", "+", C(1))]),
        Assign("c2", C(0)), While(Cmp("<", V("c2"), C(2)), [Assign("x2", Bin("+", V("x2"), C(1))), Assign("c2", Bin("+", V("c2"), C(1)))]),
        Assign("z", V("x1")), Ret(V("z"))))
    add("for", _entry(
        Assign("x1", C(1)), Assign("x2", C(0)),
        For("i1", Bin("%", V("a"), C(4)), [Assign("x1", Bin("+", V("x1"), V("i1")))]),
        For("i2", C(2), [Assign("x2", Bin("+", V("x2"), V("b")))]),
        Assign("z", Bin("*", V("x1"), C(2))), Ret(V("z"))))
    add("loop-break", _entry(
        Assign("x1", C(0)),
        For("i1", C(3), [If(Cmp(">", V("i1"), V("b")), [Break()]), Assign("x1", Bin("+", V("x1"), V("a")))]),
        Assign("z", V("x1")), Ret(V("z"))), inputs=((5, 1), (1, 5), (2, 0)))
    add("loop-break-after-body", _entry(
        Assign("x1", C(0)),
        For("i1", C(1), [Assign("x1", Bin("+", V("x1"), C(3))), If(Cmp(">=", V("a"), V("b")), [Break()])]),
        Assign("z", V("x1")), Ret(V("z"))), inputs=((3, 0), (0, 3), (2, 2)))
    add("global", _entry(
        Assign("x1", Bin("+", GV(), V("a"))), Assign("x2", C(3)),
        If(Cmp(">", V("a"), V("b")), [GSet(Bin("*", V("x1"), C(2)))], [GAug("+", V("b"))]),
        Assign("z", Bin("+", GV(), C(1))), Ret(V("z"))))
    add("attribute", _entry(
        New("o1", V("a"), C(7)), New("o2", V("b"), C(1)), Assign("x1", C(2)),
        If(Cmp(">", V("a"), V("b")), [ASet("o1", "y", Bin("+", V("a"), C(1)))], [AAug("o2", "x", "+", C(3))]),
        ASet("o2", "y", C(99)),
        Assign("z", Bin("+", Attr("o1", "y"), Attr("o2", "x"))), Ret(V("z"))))
    add("attribute-alias", _entry(
        New("o1", V("a"), C(7)), Assign("o2", V("o1")), ASet("o2", "x", Bin("*", V("b"), C(2))), Assign("x1", C(2)),
        Assign("z", Attr("o1", "x")), Ret(V("z"))))
    add("list-literal-index", _entry(
        LNew("l1", V("a"), Bin("+", V("b"), C(1)), C(4)), LNew("l2", C(1), C(2)), Assign("x1", Bin("%", V("a"), C(3))),
        Assign("z", Bin("+", Idx("l1", V("x1")), Idx("l1", C(-1)))), Ret(V("z"))))
    add("list-append", _entry(
        LNew("l1", C(1), C(2)), Assign("x1", Bin("+", V("a"), V("b"))), LApp("l1", V("x1")), Assign("x2", C(0)),
        Assign("z", Idx("l1", C(-1))), Ret(V("z"))))
    add("subscript-store", _entry(
        LNew("l1", C(1), C(2), C(3)), Assign("x1", Bin("*", V("a"), C(3))), LSet("l1", C(1), V("x1")), Assign("x2", C(0)),
        Assign("z", Idx("l1", C(1))), Ret(V("z"))))
    def h0():
        return Func("h0", ["p", "q"], [Assign("t", Bin("+", V("p"), C(1))), If(Cmp(">", V("q"), C(2)), [Assign("t", Bin("*", V("t"), C(2)))]), Ret(V("t"))])

    add("helper-call", _entry(
        Assign("x1", Bin("-", V("a"), C(1))), Assign("x2", Call("h0", V("b"), V("b"))), Assign("x3", Call("h0", V("x1"), V("b"))),
        Assign("z", Bin("+", V("x3"), C(1))), Ret(V("z"))), helpers=[h0()])
    h1 = Func("h0", ["p", "q"], [If(Cmp(">", V("p"), V("q")), [Ret(Bin("-", V("p"), V("q")))]), Assign("t", Bin("-", V("q"), V("p"))), Ret(V("t"))])
    add("helper-early-return", _entry(
        Assign("x1", Call("h0", V("a"), V("b"))), Assign("x2", C(8)), Assign("z", Bin("*", V("x1"), C(2))), Ret(V("z"))), helpers=[h1])
    h2 = Func("h0", ["p", "q"], [GSet(Bin("+", GV(), V("p"))), Ret(V("q"))], writes_global=True)
    add("helper-global-side-effect", _entry(
        Assign("x1", C(4)), If(Cmp(">", V("a"), V("b")), [ExprS(Call("h0", V("a"), C(0)))], [Assign("x1", C(5))]),
        Assign("z", Bin("+", GV(), C(0))), Ret(V("z"))), helpers=[h2])
    m0 = Func("m0", ["self", "d"], [ASet("self", "x", Bin("+", Attr("self", "x"), V("d"))), Ret(Attr("self", "x"))], method=True)
    m1 = Func("m1", ["self", "d"], [If(Cmp(">", V("d"), C(0)), [Ret(Attr("self", "x"))]), Ret(Attr("self", "y"))], method=True)
    add("method-call", _entry(
        New("o1", V("a"), V("b")), Assign("x1", MCall("o1", "m0", C(2))), Assign("x2", MCall("o1", "m1", Bin("-", V("a"), V("b")))),
        Assign("z", Bin("+", V("x2"), Attr("o1", "x"))), Ret(V("z"))), methods=[m0, m1])
    add("boolop", _entry(
        Assign("x1", C(0)), Assign("x2", Bin("+", V("b"), C(1))),
        If(And(Cmp(">", V("a"), C(1)), Cmp(">", V("x2"), C(3))), [Assign("x1", C(1))], [Assign("x1", C(2))]),
        If(Or(Not(Cmp(">", V("a"), C(1))), Cmp("==", V("b"), C(5))), [Aug("x1", "+", C(10))]),
        Assign("z", V("x1")), Ret(V("z"))))
    # ---- containers nested in containers, aliases, element stores through one path and reads through the other
    add("nested-list-alias-store-after-nesting", _entry(
        LNew("l1", C(0), V("b")), LNew("n1", V("l1"), C(7)), Assign("x1", Bin("*", V("a"), C(3))),
        LSet("l1", C(1), V("x1")), Assign("x2", C(0)),
        Assign("z", Idx2("n1", C(0), C(1))), Ret(V("z"))))
    add("nested-dict-alias-store-after-nesting", _entry(
        LNew("l1", C(0), C(0)), LNew("l2", C(1), C(1)), DNew("d1", ("k", V("l1")), ("o", V("l2")), ("j", V("b"))),
        LSet("l1", C(0), Bin("+", V("a"), C(5))), LSet("l2", C(0), C(6)),
        Assign("z", Idx2("d1", C("k"), C(0))), Ret(V("z"))))
    add("nested-store-before-nesting", _entry(
        LNew("l1", C(0), C(0), C(0)), LSet("l1", C(0), V("a")), LSet("l1", Bin("%", V("b"), C(3)), Bin("+", V("b"), C(1))),
        LNew("n1", C(4), V("l1")), Assign("x1", C(2)),
        Assign("z", Bin("+", Idx2("n1", C(1), C(0)), Idx2("n1", C(-1), Bin("%", V("b"), C(3))))), Ret(V("z"))))
    add("nested-store-read-through-alias", _entry(
        LNew("l1", C(0), C(0)), DNew("d1", ("k", V("l1"))), LSet2("d1", C("k"), C(1), Bin("*", V("a"), C(2))), Assign("x1", C(3)),
        Assign("l2", Idx("d1", C("k"))), Assign("l3", V("l1")),
        Assign("z", Bin("+", Idx("l2", C(1)), Idx("l3", C(-1)))), Ret(V("z"))))
    add("nested-store-nested-read", _entry(
        LNew("l1", C(0), C(0)), LNew("l2", C(5), C(5)), LNew("n1", V("l1"), V("l2")),
        LSet2("n1", C(0), Bin("%", V("a"), C(2)), V("b")), LSet2("n1", C(1), C(0), C(8)), Assign("x1", C(3)),
        Assign("z", Idx2("n1", C(0), Bin("%", V("a"), C(2)))), Ret(V("z"))))
    add("nested-container-replaced", _entry(
        LNew("l1", C(0), C(0)), LNew("l2", V("a"), C(1)), LNew("n1", V("l1"), C(3)),
        If(Cmp(">", V("a"), V("b")), [LSet("n1", C(0), V("l2"))]),
        LSet("l2", C(1), Bin("+", V("b"), C(2))), LSet("l1", C(1), C(4)),
        Assign("z", Idx2("n1", C(0), C(1))), Ret(V("z"))))
    add("nested-alias-store-under-control", _entry(
        LNew("l1", C(0), C(0)), LNew("n1", V("l1"), C(7)), Assign("l2", V("l1")), Assign("x1", Bin("+", V("a"), C(1))),
        If(Cmp(">", V("a"), V("b")), [LSet("l2", C(0), V("x1"))], [Assign("x2", C(1))]),
        For("i1", Bin("%", V("b"), C(3)), [LSet("l1", C(1), Bin("+", V("i1"), V("a")))]),
        Assign("z", Bin("+", Idx2("n1", C(0), C(0)), Idx2("n1", C(0), C(1)))), Ret(V("z"))))
    add("nested-two-alias-stores-after-nesting", _entry(
        LNew("l1", C(0), C(0)), LNew("n1", V("l1"), C(7)),
        LSet("l1", C(0), Bin("+", V("a"), C(5))), LSet("l1", C(1), V("b")),
        Assign("z", Idx2("n1", C(0), C(0))), Ret(V("z"))))
    add("probe", _entry(
        New("o1", V("a"), C(7)), Assign("x9", Bin("*", V("b"), C(5))), LNew("l1", V("a"), V("b"), C(4)), Assign("c1", C(0)),
        While(Cmp("<", V("c1"), C(3)), [Assign("c1", Bin("+", V("c1"), C(1)))]),
        If(Cmp(">", V("a"), V("b")), [Assign("x1", Call("h0", V("a"), V("b")))], [Assign("x1", Bin("+", Attr("o1", "x"), Idx("l1", C(2))))]),
        GSet(Bin("+", GV(), V("x1"))), ASet("o1", "y", Bin("+", V("x1"), Idx("l1", C(1)))),
        For("i1", C(2), [Assign("x1", Bin("+", V("x1"), V("i1")))]),
        Assign("z", Bin("+", GV(), Attr("o1", "y"))), Ret(V("z"))), helpers=[h0()])
    return out
