"""Exclusion-marker workload for C07/C08: annotate a generated program with random '# pragma: no cover' /
'# pynguin: no cover' markers, no_cover / only_cover scope names, a __main__ block and a TYPE_CHECKING block,
and compute — by an independent AST walk over the markers *we* inserted — which source lines are excluded.

Semantics used by the oracle (Coverage.py's, as the user documentation refers to it): a marker on a line that
introduces a clause (def/class, if/elif, for, while, try, except, case, and the else:/finally: label lines)
excludes that clause's block (and the marked line itself); a marker on a simple statement excludes that
statement.  Markers are never placed on constructs whose treatment the documentation leaves open
(with-headers, decorator lines, lines inside multi-line expressions).
"""

from __future__ import annotations

import ast
import random

TAIL = '''

if TYPE_CHECKING_FLAG:
    pass

from typing import TYPE_CHECKING

if TYPE_CHECKING:
    import decimal
    TYPE_ALIAS = int

if __name__ == "__main__":
    print(helper(1, 2))
    for _i in range(2):
        if _i:
            print(_i)
'''


def qualnames(tree):
    out = {}

    def walk(node, prefix):
        for child in ast.iter_child_nodes(node):
            if isinstance(child, (ast.FunctionDef, ast.AsyncFunctionDef, ast.ClassDef)):
                q = f"{prefix}.{child.name}" if prefix else child.name
                out[q] = child
                walk(child, q)
            elif isinstance(child, (ast.If, ast.For, ast.While, ast.Try, ast.With, ast.Match, ast.match_case, ast.ExceptHandler)):
                walk(child, prefix)

    walk(tree, "")
    return out


def _body_range(body):
    return range(body[0].lineno, (body[-1].end_lineno or body[-1].lineno) + 1)


def candidate_marker_lines(source):
    """{line: kind} of lines where a marker may be placed."""
    tree = ast.parse(source)
    lines = source.splitlines()
    out = {}
    for node in ast.walk(tree):
        if isinstance(node, (ast.FunctionDef, ast.AsyncFunctionDef, ast.ClassDef)):
            out[node.lineno] = "def-decorated" if node.decorator_list else ("class" if isinstance(node, ast.ClassDef) else "def")
        elif isinstance(node, ast.If):
            kind = "elif" if lines[node.lineno - 1].lstrip().startswith("elif") else "if"
            out[node.lineno] = kind
            if node.orelse and not (len(node.orelse) == 1 and isinstance(node.orelse[0], ast.If) and lines[node.orelse[0].lineno - 1].lstrip().startswith("elif")):
                for ln in range((node.body[-1].end_lineno or 0) + 1, node.orelse[0].lineno):
                    if lines[ln - 1].strip().startswith("else"):
                        out[ln] = "else"
        elif isinstance(node, (ast.For, ast.While)):
            out[node.lineno] = "for" if isinstance(node, ast.For) else "while"
            if node.orelse:
                for ln in range((node.body[-1].end_lineno or 0) + 1, node.orelse[0].lineno):
                    if lines[ln - 1].strip().startswith("else"):
                        out[ln] = "loop-else"
        elif isinstance(node, ast.Try):
            out[node.lineno] = "try"
            for h in node.handlers:
                out[h.lineno] = "except"
            prev_end = (node.handlers[-1].end_lineno if node.handlers else node.body[-1].end_lineno) or 0
            if node.orelse:
                for ln in range(prev_end + 1, node.orelse[0].lineno):
                    if lines[ln - 1].strip().startswith("else"):
                        out[ln] = "try-else"
                prev_end = node.orelse[-1].end_lineno or 0
            if node.finalbody:
                for ln in range(prev_end + 1, node.finalbody[0].lineno):
                    if lines[ln - 1].strip().startswith("finally"):
                        out[ln] = "finally"
        elif isinstance(node, ast.Match):
            out[node.lineno] = "match"
            for c in node.cases:
                out[c.pattern.lineno] = "case"
        elif isinstance(node, (ast.Assign, ast.AugAssign, ast.Expr, ast.Return, ast.Assert)) and node.lineno == (node.end_lineno or node.lineno):
            out.setdefault(node.lineno, "simple")
    return out


def excluded_lines(source, marked, no_cover_names=()):
    """Independent computation of the excluded line set (markers + no_cover names + __main__/TYPE_CHECKING blocks)."""
    tree = ast.parse(source)
    lines = source.splitlines()
    ex: set[int] = set()
    q = qualnames(tree)
    for name in no_cover_names:
        if name in q:
            n = q[name]
            ex |= set(range(n.lineno, (n.end_lineno or n.lineno) + 1))
    for node in ast.walk(tree):
        if isinstance(node, (ast.FunctionDef, ast.AsyncFunctionDef, ast.ClassDef)):
            if node.lineno in marked:
                ex |= set(range(node.lineno, (node.end_lineno or node.lineno) + 1))
        elif isinstance(node, ast.If):
            t = node.test
            is_main = (isinstance(t, ast.Compare) and isinstance(t.left, ast.Name) and t.left.id == "__name__" and len(t.comparators) == 1
                       and isinstance(t.comparators[0], ast.Constant) and t.comparators[0].value == "__main__")
            is_tc = (isinstance(t, ast.Name) and t.id == "TYPE_CHECKING") or (isinstance(t, ast.Attribute) and t.attr == "TYPE_CHECKING")
            if is_main or is_tc:
                ex |= set(range(node.lineno, (node.end_lineno or node.lineno) + 1))
                continue
            if node.lineno in marked:
                ex |= {node.lineno} | set(_body_range(node.body))
            if node.orelse:
                labels = [ln for ln in range((node.body[-1].end_lineno or 0) + 1, node.orelse[0].lineno) if lines[ln - 1].strip().startswith("else")]
                if any(ln in marked for ln in labels):
                    ex |= set(labels) | set(_body_range(node.orelse))
        elif isinstance(node, (ast.For, ast.While)):
            if node.lineno in marked:
                ex |= {node.lineno} | set(_body_range(node.body))
            if node.orelse:
                labels = [ln for ln in range((node.body[-1].end_lineno or 0) + 1, node.orelse[0].lineno) if lines[ln - 1].strip().startswith("else")]
                if any(ln in marked for ln in labels):
                    ex |= set(labels) | set(_body_range(node.orelse))
        elif isinstance(node, ast.Try):
            if node.lineno in marked:
                ex |= {node.lineno} | set(_body_range(node.body))
            for h in node.handlers:
                if h.lineno in marked:
                    ex |= set(range(h.lineno, (h.end_lineno or h.lineno) + 1))
            prev_end = (node.handlers[-1].end_lineno if node.handlers else node.body[-1].end_lineno) or 0
            if node.orelse:
                labels = [ln for ln in range(prev_end + 1, node.orelse[0].lineno) if lines[ln - 1].strip().startswith("else")]
                if any(ln in marked for ln in labels):
                    ex |= set(labels) | set(_body_range(node.orelse))
                prev_end = node.orelse[-1].end_lineno or 0
            if node.finalbody:
                labels = [ln for ln in range(prev_end + 1, node.finalbody[0].lineno) if lines[ln - 1].strip().startswith("finally")]
                if any(ln in marked for ln in labels):
                    ex |= set(labels) | set(_body_range(node.finalbody))
        elif isinstance(node, ast.Match):
            if node.lineno in marked:
                ex |= set(range(node.lineno, (node.end_lineno or node.lineno) + 1))
            for c in node.cases:
                if c.pattern.lineno in marked:
                    ex |= set(range(c.pattern.lineno, (c.body[-1].end_lineno or c.pattern.lineno) + 1))
        elif isinstance(node, ast.stmt) and not isinstance(node, (ast.With,)):
            if node.lineno in marked and node.lineno == (node.end_lineno or node.lineno):
                ex.add(node.lineno)
    return ex


def scope_lines(source, names):
    """Lines inside the given (qualified) scopes."""
    q = qualnames(ast.parse(source))
    out: set[int] = set()
    for n in names:
        if n in q:
            out |= set(range(q[n].lineno, (q[n].end_lineno or q[n].lineno) + 1))
    return out


def annotate(prog_source: str, rng: random.Random, style=None):
    """Returns dict(source, marked {line: (kind, marker)}, no_cover [...], only_cover [...], config kwargs)."""
    source = prog_source.replace("import math\n", "import math\n\nTYPE_CHECKING_FLAG = False\n", 1) + TAIL
    cands = candidate_marker_lines(source)
    # never mark inside the tail blocks or the TYPE_CHECKING_FLAG helper
    tail_start = source.count("\n") - TAIL.count("\n")
    cands = {ln: k for ln, k in cands.items() if ln < tail_start}
    style = style or rng.choice(["markers", "markers", "no_cover", "only_cover", "mixed", "none"])
    marked = {}
    lines = source.splitlines()
    if style in ("markers", "mixed"):
        pool = sorted(cands)
        rng.shuffle(pool)
        for ln in pool[: rng.randint(1, 6)]:
            marker = rng.choice(["# pragma: no cover", "# pynguin: no cover", "#  pragma:  no  cover"])
            marked[ln] = (cands[ln], marker)
            lines[ln - 1] = lines[ln - 1] + "  " + marker
    names = [n for n in qualnames(ast.parse(source)) if not n.startswith(("CM", "make_adder."))]
    no_cover, only_cover = [], []
    if style in ("no_cover", "mixed"):
        no_cover = rng.sample(names, min(len(names), rng.randint(1, 3)))
    if style == "only_cover":
        only_cover = rng.sample(names, min(len(names), rng.randint(1, 3)))
    return {"source": "\n".join(lines) + "\n", "marked": marked, "no_cover": no_cover, "only_cover": only_cover, "style": style}
