"""Shared harness for the execution checks (C30, C31, C32).

Drives the *real* import hook, tracer and executors of pynguin on scratch SUT modules, builds
libcst test cases by hand or with the real factory, normalises an ExecutionResult into a JSON-able
summary, and runs callables in forked children (fresh process, same instrumented module).

Everything pynguin-related is imported lazily.
"""

from __future__ import annotations

import json
import os
import re
import sys
import time
import traceback


class ForkFailed(Exception):
    """The forked child did not deliver a result (died / watchdog)."""


# ---------------------------------------------------------------------------------------
def setup_sut(scratch, name: str, source: str, *, patch_random: bool = True, seed: int = 0, metrics=None):
    """Write `source` as module `name` under scratch, install the import hook, import it under the tracer.

    Mirrors generator._setup_and_check: path, hook, _patch_random, load under the tracer, RNG seeding.
    Returns (subject_properties, module, hook_context_manager).
    """
    import importlib
    import random

    import pynguin.configuration as config
    from pynguin.instrumentation.machinery import install_import_hook
    from pynguin.instrumentation.tracer import SubjectProperties
    from pynguin.utils import randomness

    scratch = str(scratch)
    with open(os.path.join(scratch, name + ".py"), "w") as f:
        f.write(source)
    if scratch not in sys.path:
        sys.path.insert(0, scratch)
    importlib.invalidate_caches()
    config.configuration.module_name = name
    config.configuration.project_path = scratch
    config.configuration.seeding.seed = seed
    if metrics is None:
        metrics = {config.CoverageMetric.BRANCH, config.CoverageMetric.LINE}
    sp = SubjectProperties()
    hook = install_import_hook(name, sp, set(metrics), config.ToCoverConfiguration())
    if patch_random:
        from pynguin.generator import _patch_random

        _patch_random()
    with sp.instrumentation_tracer:
        module = importlib.import_module(name)
    randomness.RNG.seed(seed)
    random.seed(seed)
    return sp, module, hook


def select_sut(name: str):
    """Make `name` the configured module under test (several SUTs can live in one process)."""
    import pynguin.configuration as config

    config.configuration.module_name = name


_ASSIGN = re.compile(r"^([A-Za-z_][A-Za-z_0-9]*)\s*=[^=]")


def mk_test(lines):
    """Build a libcst-backed TestCase from source lines; `x = ...` binds variable x."""
    import libcst as cst

    import pynguin.testcase.testcase as tc

    t = tc.TestCase()
    for line in lines:
        m = _ASSIGN.match(line)
        node = cst.parse_module(line + "\n").body[0]
        t.add_statement(tc.Statement(node=node, bound_variable=m.group(1) if m else None))
    return t


def test_lines(test_case) -> list[str]:
    return [ln for ln in test_case.to_code().splitlines() if ln.strip()]


def clone_plain(test_case):
    """A copy of the test case without assertions (fresh Statement objects)."""
    return mk_from_statements(test_case, keep_assertions=False)


def mk_from_statements(test_case, keep_assertions=True):
    import pynguin.testcase.testcase as tc

    t = tc.TestCase()
    for s in test_case.statements():
        t.add_statement(
            tc.Statement(
                node=s.node,
                bound_variable=s.bound_variable,
                bound_type=s.bound_type,
                assertions=list(s.assertions) if keep_assertions else [],
                accessible=s.accessible,
            )
        )
    return t


# ---------------------------------------------------------------------------------------
def exc_name(e) -> str:
    t = type(e)
    return f"{t.__module__}.{t.__qualname__}"


def render_assertion(a) -> str:
    """Rendered text of an assertion (what the exporter would write) + its repr-independent class."""
    import libcst as cst

    from pynguin.assertion.assertion_to_ast import assertion_to_cst

    try:
        node = assertion_to_cst(a)
        txt = cst.Module(body=[node]).code.strip() if node is not None else "<no-render>"
    except Exception as e:  # noqa: BLE001
        txt = f"<render-raises {type(e).__name__}>"
    extra = ""
    if type(a).__name__ == "ExceptionAssertion":
        extra = f" {a.module}.{a.exception_type_name}"
    return f"{type(a).__name__}{extra}: {txt}"


def summarize(result, sp, *, assertions=True, verification=True) -> dict:
    """JSON-able normal form of an ExecutionResult."""
    tr = result.execution_trace
    lines = sorted(sp.lineids_to_linenos(tr.covered_line_ids))
    branches = []
    for pid in tr.executed_predicates:
        if tr.true_distances.get(pid) == 0:
            branches.append([pid, "T"])
        if tr.false_distances.get(pid) == 0:
            branches.append([pid, "F"])
    out = {
        "timeout": bool(result.timeout),
        "exc": {str(k): exc_name(v) for k, v in sorted(result.exceptions.items())},
        "lines": lines,
        "branches": sorted(branches),
        "code_objects": sorted(tr.executed_code_objects),
    }
    if assertions:
        at = result.assertion_trace
        out["assertions"] = {
            str(pos): sorted(render_assertion(a) for a in asserts) for pos, asserts in sorted(at.trace.items()) if len(asserts)
        }
    if verification:
        vt = result.assertion_verification_trace
        out["verif"] = {
            "failed": {str(p): sorted(v) for p, v in sorted(vt.failed.items()) if len(v)},
            "error": {str(p): sorted(v) for p, v in sorted(vt.error.items()) if len(v)},
        }
    return out


def diff_keys(a: dict, b: dict) -> list[str]:
    return [k for k in sorted(set(a) | set(b)) if a.get(k) != b.get(k)]


# ---------------------------------------------------------------------------------------
def snapshot() -> dict:
    """Process state that C30 says must survive a test-case execution."""
    import logging

    from pynguin.utils import randomness

    def fd(i):
        try:
            s = os.fstat(i)
            return [s.st_dev, s.st_ino]
        except OSError:
            return None

    def closed(f):
        try:
            return bool(f.closed)
        except Exception:  # noqa: BLE001
            return None

    return {
        "sys.stdout": id(sys.stdout),
        "sys.stderr": id(sys.stderr),
        "sys.stdin": id(sys.stdin),
        "sys.__stdout__": id(sys.__stdout__),
        "sys.__stderr__": id(sys.__stderr__),
        "sys.stdout.closed": closed(sys.stdout),
        "sys.stderr.closed": closed(sys.stderr),
        "sys.stdin.closed": closed(sys.stdin),
        "fd0": fd(0),
        "fd1": fd(1),
        "fd2": fd(2),
        "logging.disable": logging.root.manager.disable,
        "logging.root.handlers": [id(h) for h in logging.root.handlers],
        "logging.root.level": logging.root.level,
        "RNG": randomness.RNG.getstate(),
    }


# ---------------------------------------------------------------------------------------
def forked(fn, scratch, timeout: float = 60.0):
    """Run fn() in a forked child (fresh process image of the current state); return its JSON result.

    The child reports through a file, never through stdio (the workloads close / replace stdio).
    Raises ForkFailed if the child dies or the watchdog fires.
    """
    if not getattr(forked, "counter", 0):
        import gc

        gc.collect()
        gc.freeze()  # keep the garbage collector of the children from touching (and copying) the inherited heap
    forked.counter = getattr(forked, "counter", 0) + 1
    path = os.path.join(str(scratch), f"fork_{os.getpid()}_{forked.counter}.json")
    pid = os.fork()
    if pid == 0:
        code = 0
        try:
            try:
                res = {"ok": fn()}
            except BaseException as e:  # noqa: BLE001
                res = {"err": f"{type(e).__name__}: {e}", "tb": traceback.format_exc()[-1500:]}
            with open(path + ".tmp", "w") as f:
                json.dump(res, f)
            os.replace(path + ".tmp", path)
        except BaseException:  # noqa: BLE001
            code = 3
        finally:
            os._exit(code)
    t0 = time.time()
    status = None
    while True:
        wpid, st = os.waitpid(pid, os.WNOHANG)
        if wpid == pid:
            status = st
            break
        if time.time() - t0 > timeout:
            try:
                os.kill(pid, 9)
            except OSError:
                pass
            os.waitpid(pid, 0)
            raise ForkFailed(f"forked child exceeded {timeout}s")
        time.sleep(0.003)
    if not os.path.exists(path):
        raise ForkFailed(f"forked child ended with status {status} without a result")
    with open(path) as f:
        res = json.load(f)
    os.unlink(path)
    if "err" in res:
        raise ForkFailed(f"forked child raised {res['err']}\n{res.get('tb', '')}")
    return res["ok"]


# ---------------------------------------------------------------------------------------
def factory_tests(module_name: str, n: int, seed: int, max_tries: int | None = None):
    """n test cases from the real RandomLengthTestCaseFactory for the (already imported) module."""
    import pynguin.ga.testcasefactory as tcf
    import pynguin.testcase.testfactory as tf
    from pynguin.analyses.module import generate_test_cluster
    from pynguin.utils import randomness

    cluster = generate_test_cluster(module_name)
    factory = tf.TestFactory(cluster)
    gen = tcf.RandomLengthTestCaseFactory(factory, cluster)
    randomness.RNG.seed(seed)
    out = []
    tries = 0
    max_tries = max_tries or n * 4
    while len(out) < n and tries < max_tries:
        tries += 1
        t = gen.get_test_case()
        if t.size() > 0:
            out.append(t)
    return out, cluster
