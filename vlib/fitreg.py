"""Shared workload for C10/C11: real registries (SubjectProperties) and valid execution traces.

* ``instrument_source`` writes a module to the scratch dir and imports it under the real import hook,
  so code objects / predicates / lines are registered by the real instrumentation with real CFG/CDG.
* ``derive_registry`` builds a synthetic but valid registry from an instrumented one through the real
  ``register_code_object`` / ``register_predicate`` / ``register_line`` API (subset of code objects,
  subset of predicates, subset of lines; real CFG / CDG / node objects are reused).
* ``random_trace`` builds a *valid* ExecutionTrace through the real ``update_predicate_distances``:
  every execution of a predicate reports exactly one zero distance, counts are summed, minima kept,
  an executed predicate implies an executed code object, covered lines belong to executed code objects.
* ``real_traces`` executes the instrumented functions with random arguments under the real tracer.

Nothing here decides anything; the oracles live in the checks.
"""

from __future__ import annotations

import importlib
import math
import sys


STATIC_SOURCES = {
    "plainonly": "X = 1\nY = X + 1\n",
    "twofuncs": (
        "def classify(a, b):\n"
        "    if a < b:\n"
        "        if a == 0:\n"
        "            return 'zero'\n"
        "        return 'lt'\n"
        "    elif a == b:\n"
        "        return 'eq'\n"
        "    while b > 0:\n"
        "        b -= 1\n"
        "        if b == 3:\n"
        "            break\n"
        "    return 'gt'\n"
        "\n"
        "def plain(x, y):\n"
        "    return x + 1\n"
    ),
    "klass": (
        "class K:\n"
        "    def m(self, a, b):\n"
        "        for c in range(min(abs(a), 6)):\n"
        "            if c == b:\n"
        "                return 1\n"
        "        return 0\n"
        "    def n(self, a, b):\n"
        "        return 2\n"
        "\n"
        "def use(a, b):\n"
        "    k = K()\n"
        "    if a > 3 and b < 2:\n"
        "        return k.m(a, b)\n"
        "    return k.n(a, b)\n"
    ),
    "modlevel": (
        "import os\n"
        "FLAG = 3\n"
        "if FLAG > 2:\n"
        "    Z = 1\n"
        "else:\n"
        "    Z = 2\n"
        "def f(a, b):\n"
        "    if a is None or b in (1, 2, 3):\n"
        "        return 0\n"
        "    return 1 if a != b else 2\n"
    ),
    "nested": (
        "def outer(a, b):\n"
        "    def inner(x):\n"
        "        if x > b:\n"
        "            return x\n"
        "        return b\n"
        "    g = lambda q: q + 1\n"
        "    if a >= 10:\n"
        "        return inner(a)\n"
        "    if not a:\n"
        "        return g(b)\n"
        "    return 0\n"
    ),
    "onlybranchless": "def a(x, y):\n    return x\n\ndef b(x, y):\n    return y\n\ndef c(x, y):\n    return a(x, y) + b(x, y)\n",
    "deep": (
        "def deep(a, b):\n"
        "    r = 0\n"
        "    if a > 0:\n"
        "        if b > 0:\n"
        "            if a > b:\n"
        "                if a > 2 * b:\n"
        "                    r = 4\n"
        "                else:\n"
        "                    r = 3\n"
        "            else:\n"
        "                r = 2\n"
        "        else:\n"
        "            r = 1\n"
        "    n = 0\n"
        "    while n < 3 and a > n:\n"
        "        n += 1\n"
        "        if n == b:\n"
        "            continue\n"
        "        r += n\n"
        "    return r\n"
    ),
}


# ----------------------------------------------------------------------------------------------
# random program generator (ints only, terminating by construction, no try/with/comprehension)
def _gen_cond(rng):
    a = rng.choice(["a", "b", "r", "n"])
    b = rng.choice(["a", "b", "r", "0", "1", "3", "-2", "10"])
    op = rng.choice(["<", "<=", "==", "!=", ">", ">="])
    c = f"{a} {op} {b}"
    k = rng.random()
    if k < 0.15:
        c = f"{c} and {rng.choice(['a', 'b'])} {rng.choice(['<', '>', '=='])} {rng.randint(-2, 5)}"
    elif k < 0.3:
        c = f"{c} or {rng.choice(['a', 'b'])} {rng.choice(['<', '>', '!='])} {rng.randint(-2, 5)}"
    elif k < 0.36:
        c = f"not ({c})"
    elif k < 0.42:
        c = f"{a} in (1, 2, {rng.randint(3, 9)})"
    elif k < 0.46:
        c = f"{a}"
    return c


def _gen_block(rng, depth, indent, in_loop, budget):
    pad = "    " * indent
    out = []
    n = rng.randint(1, 3)
    for _ in range(n):
        if budget[0] <= 0:
            break
        budget[0] -= 1
        k = rng.random()
        if depth <= 0 or k < 0.3:
            out.append(f"{pad}r = r + {rng.choice(['a', 'b', '1', 'n'])}")
        elif k < 0.62:
            out.append(f"{pad}if {_gen_cond(rng)}:")
            out += _gen_block(rng, depth - 1, indent + 1, in_loop, budget)
            j = rng.random()
            if j < 0.25:
                out.append(f"{pad}elif {_gen_cond(rng)}:")
                out += _gen_block(rng, depth - 1, indent + 1, in_loop, budget)
            if j < 0.6:
                out.append(f"{pad}else:")
                out += _gen_block(rng, depth - 1, indent + 1, in_loop, budget)
        elif k < 0.74:
            fv = f"fuel{indent}"
            out.append(f"{pad}{fv} = 4")
            out.append(f"{pad}while {fv} > 0 and ({_gen_cond(rng)}):")
            out.append(f"{pad}    {fv} -= 1")
            out.append(f"{pad}    n += 1")
            out += _gen_block(rng, depth - 1, indent + 1, True, budget)
        elif k < 0.84:
            out.append(f"{pad}for i in range(min(abs(a), {rng.randint(1, 4)})):")
            out.append(f"{pad}    n += i")
            out += _gen_block(rng, depth - 1, indent + 1, True, budget)
        elif k < 0.9 and in_loop:
            out.append(f"{pad}if {_gen_cond(rng)}:")
            out.append(f"{pad}    {rng.choice(['break', 'continue'])}")
        elif k < 0.96:
            out.append(f"{pad}if {_gen_cond(rng)}:")
            out.append(f"{pad}    return r")
        else:
            out.append(f"{pad}r = r if {_gen_cond(rng)} else n")
    if not out:
        out.append(f"{pad}pass")
    return out


def gen_source(rng):
    """A random module: 1-4 functions f0..fk(a, b) (some inside a class, some branch-less)."""
    parts = []
    nf = rng.randint(1, 4)
    in_class = rng.random() < 0.25
    ind = 1 if in_class else 0
    pad = "    " * ind
    if in_class:
        parts.append("class C:")
    for i in range(nf):
        args = "self, a, b" if in_class else "a, b"
        parts.append(f"{pad}def f{i}({args}):")
        if rng.random() < 0.2:
            parts.append(f"{pad}    return a + b")
        else:
            parts.append(f"{pad}    r = 0")
            parts.append(f"{pad}    n = 0")
            parts += _gen_block(rng, rng.randint(1, 3), ind + 1, False, [rng.randint(3, 12)])
            parts.append(f"{pad}    return r")
        parts.append("")
    if rng.random() < 0.2:
        parts.append("if len(__name__) > 3:\n    TOP = 1\nelse:\n    TOP = 2\n")
    return "\n".join(parts) + "\n"


# ----------------------------------------------------------------------------------------------
class Registry:
    """A registry (SubjectProperties) plus what is needed to execute its code for real traces."""

    def __init__(self, sp, module=None, name="", kind="instrumented"):
        self.sp = sp
        self.module = module
        self.name = name
        self.kind = kind
        self._pool = None

    def shape(self):
        sp = self.sp
        return {
            "code_objects": len(sp.existing_code_objects),
            "branchless": len(list(sp.branch_less_code_objects)),
            "predicates": len(sp.existing_predicates),
            "lines": len(sp.existing_lines),
        }


_counter = [0]


def instrument_source(scratch, source, tag="m"):
    """Write `source` as a new module under scratch and import it under the real import hook.

    Returns a Registry or raises whatever the instrumentation raised.
    """
    import pynguin.configuration as config

    from pynguin.instrumentation.machinery import install_import_hook
    from pynguin.instrumentation.tracer import SubjectProperties

    _counter[0] += 1
    name = f"vfr_{tag}_{_counter[0]}"
    path = scratch / f"{name}.py"
    path.write_text(source)
    if str(scratch) not in sys.path:
        sys.path.insert(0, str(scratch))
    importlib.invalidate_caches()
    sp = SubjectProperties()
    metrics = {config.CoverageMetric.BRANCH, config.CoverageMetric.LINE}
    with install_import_hook(name, sp, metrics, config.ToCoverConfiguration()):
        with sp.instrumentation_tracer:
            module = importlib.import_module(name)
    return Registry(sp, module, name)


def derive_registry(rng, src: Registry, mode=None):
    """A synthetic valid registry built with the real register_* API from parts of `src`."""
    from pynguin.instrumentation.tracer import CodeObjectMetaData, LineMetaData, PredicateMetaData, SubjectProperties

    old = src.sp
    sp = SubjectProperties()
    mode = mode or rng.choice(["subset", "subset", "no-predicates", "no-lines", "only-branching", "empty", "all"])
    ids = list(old.existing_code_objects)
    if mode == "empty":
        keep = []
    elif mode == "all" or mode == "no-predicates" or mode == "no-lines":
        keep = ids
    elif mode == "only-branching":
        with_pred = {m.code_object_id for m in old.existing_predicates.values()}
        keep = [i for i in ids if i in with_pred]
    else:
        keep = [i for i in ids if rng.random() < 0.6]
    rng.shuffle(keep)
    idmap = {}
    for oid in keep:
        nid = sp.create_code_object_id()
        idmap[oid] = nid
    for oid in keep:
        m = old.existing_code_objects[oid]
        sp.register_code_object(
            idmap[oid], CodeObjectMetaData(m.code_object, idmap.get(m.parent_code_object_id), m.cfg, m.cdg)
        )
    if mode != "no-predicates":
        drop_some = mode == "subset" and rng.random() < 0.4
        for pm in old.existing_predicates.values():
            if pm.code_object_id in idmap and not (drop_some and rng.random() < 0.3):
                sp.register_predicate(PredicateMetaData(pm.line_no, idmap[pm.code_object_id], pm.node))
    if mode != "no-lines":
        for lm in old.existing_lines.values():
            if lm.code_object_id in idmap and (mode != "subset" or rng.random() < 0.85):
                sp.register_line(LineMetaData(idmap[lm.code_object_id], lm.file_name, lm.line_number))
    return Registry(sp, None, f"{src.name}:{mode}", kind=f"derived:{mode}")


DIST_POOL = [5e-324, 1e-300, 1e-9, 0.25, 0.5, 1.0, 2.0, 7.0, 1e6, 2.0**53, 1e308, math.inf]


def random_trace(rng, reg: Registry, style=None):
    """A valid synthetic ExecutionTrace over the registry (built through the real trace API).

    style: 'empty' | 'full' (everything covered) | 'once' (every predicate executed exactly once)
           | 'far' (nothing at distance 0 twice) | None (random mix)
    """
    from pynguin.instrumentation.tracer import ExecutionTrace

    sp = reg.sp
    t = ExecutionTrace()
    if style == "empty":
        return t
    if style is None:
        style = rng.choice(["mix", "mix", "mix", "mix", "full", "once", "nearfull", "sparse"])
    p_code = {"mix": rng.random(), "full": 1.0, "once": 1.0, "nearfull": 0.93, "sparse": 0.25, "far": 1.0}[style]
    for cid in sp.existing_code_objects:
        if rng.random() < p_code:
            t.executed_code_objects.add(cid)
    for pid, meta in sp.existing_predicates.items():
        if meta.code_object_id not in t.executed_code_objects:
            continue
        if style == "full":
            execs = [True, False] + [rng.random() < 0.5 for _ in range(rng.randint(0, 2))]
            rng.shuffle(execs)
        elif style == "once":
            execs = [rng.random() < 0.5]
        elif style == "nearfull":
            execs = [True, False] if rng.random() < 0.9 else [rng.random() < 0.5] * rng.choice([1, 2, 3])
        elif style == "far":
            v = rng.random() < 0.5
            execs = [v] * rng.randint(1, 4)
        else:
            k = rng.choice([0, 0, 1, 1, 2, 2, 3, 5])
            bias = rng.random()
            execs = [rng.random() < bias for _ in range(k)]
        for outcome in execs:
            other = rng.choice(DIST_POOL)
            if outcome:
                t.update_predicate_distances(0.0, other, pid)
            else:
                t.update_predicate_distances(other, 0.0, pid)
    p_line = 1.0 if style == "full" else rng.choice([0.0, 0.3, 0.7, 0.95, 1.0])
    for lid, lm in sp.existing_lines.items():
        if lm.code_object_id in t.executed_code_objects and rng.random() < p_line:
            t.covered_line_ids.add(lid)
    p_chk = 1.0 if style == "full" else rng.choice([0.0, 0.0, 0.3, 0.8, 1.0])
    for lid in t.covered_line_ids:
        if rng.random() < p_chk:
            t.checked_lines.add(lid)
    return t


def real_traces(rng, reg: Registry, n):
    """Execute the instrumented functions with random int arguments under the real tracer.

    Returns a list of (trace, how) where how names the call. Exceptions of the SUT are swallowed
    (the trace up to the exception is still a real trace).
    """
    import inspect

    if reg.module is None:
        return []
    tracer = reg.sp.instrumentation_tracer
    targets = []
    for nm, obj in vars(reg.module).items():
        if inspect.isfunction(obj) and obj.__module__ == reg.name:
            targets.append((nm, obj))
        elif inspect.isclass(obj) and obj.__module__ == reg.name:
            try:
                inst = obj()
            except Exception:  # noqa: BLE001
                continue
            for mn, mo in vars(obj).items():
                if inspect.isfunction(mo):
                    targets.append((f"{nm}.{mn}", getattr(inst, mn)))
    out = []
    vals = [-3, -1, 0, 1, 2, 3, 4, 5, 9, 10, 11, 100]
    for _ in range(n):
        k = rng.randint(0, min(3, len(targets)))
        calls = [(rng.choice(targets), rng.choice(vals), rng.choice(vals)) for _ in range(k)] if targets else []
        with tracer:
            tracer.init_trace()
            for (nm, fn), a, b in calls:
                try:
                    fn(a, b)
                except Exception:  # noqa: BLE001
                    pass
            trace = tracer.get_trace()
        out.append((trace, [[nm, a, b] for (nm, _), a, b in calls]))
    return out


def trace_to_json(t):
    def f(x):
        return x if x != math.inf else "inf"

    extra = {}
    if t.executed_instructions or t.executed_assertions or t.object_addresses:
        extra = {
            "executed_instructions": [[i.file, i.code_object_id, i.node_id, i.opcode, i.lineno, i.instr_original_index] for i in t.executed_instructions],
            "executed_assertions": [[a.trace_position, repr(a.assertion)] for a in t.executed_assertions],
            "object_addresses": list(t.object_addresses),
        }
    return {
        **extra,
        "executed_code_objects": list(t.executed_code_objects),
        "executed_predicates": {str(k): v for k, v in t.executed_predicates.items()},
        "true_distances": {str(k): f(v) for k, v in t.true_distances.items()},
        "false_distances": {str(k): f(v) for k, v in t.false_distances.items()},
        "covered_line_ids": list(t.covered_line_ids),
        "checked_lines": list(t.checked_lines),
    }


def registry_to_json(reg: Registry):
    sp = reg.sp
    return {
        "name": reg.name,
        "kind": reg.kind,
        "code_objects": {str(k): [m.code_object.co_name, m.parent_code_object_id] for k, m in sp.existing_code_objects.items()},
        "predicates": {str(k): [m.code_object_id, m.line_no] for k, m in sp.existing_predicates.items()},
        "lines": {str(k): [m.code_object_id, m.line_number] for k, m in sp.existing_lines.items()},
    }


def make_result(trace):
    from pynguin.testcase.execution_result import ExecutionResult

    r = ExecutionResult()
    r.execution_trace = trace
    return r


def make_fake_executor(sp):
    """An AbstractTestCaseExecutor that serves prepared results (by id of the test case)."""
    import contextlib

    from pynguin.testcase.execution import AbstractTestCaseExecutor

    class PreparedExecutor(AbstractTestCaseExecutor):
        def __init__(self, subject_properties):
            self._sp = subject_properties
            self.prepared = {}
            self.executions = 0

        @property
        def module_provider(self):
            raise NotImplementedError

        def add_observer(self, observer):
            pass

        def clear_observers(self):
            pass

        @contextlib.contextmanager
        def temporarily_add_observer(self, observer):
            yield

        def add_remote_observer(self, remote_observer):
            pass

        def clear_remote_observers(self):
            pass

        @contextlib.contextmanager
        def temporarily_add_remote_observer(self, remote_observer):
            yield

        @property
        def subject_properties(self):
            return self._sp

        def execute(self, test_case):
            self.executions += 1
            return self.prepared[id(test_case)]

    return PreparedExecutor(sp)
