"""Shared workload, pipeline runner and source-normalisation helpers of the generated-file checks C18, C19 and C24.

All three checks draw their cases from the same generator and run every case with the same two monitors
(``assertion_snapshot`` and ``seed_roundtrip``), so one pipeline run yields the observations of all three properties: the
written file F1 (C18: run it with pytest), the assertion snapshots (C19) and the parse/re-export round trip F2 (C24).
Each check evaluates only its own oracle.  When ``VERIF_GENFILES_CACHE=<dir>`` is set, run results are stored there keyed
by the case (and the active ``VERIF_BREAK``), so running the three checks one after the other re-uses the pipeline runs;
without it every check runs its own pipelines (the default, nothing is written outside ``ctx.scratch``).  With
``VERIF_GENFILES_CACHE_ONLY=1`` in addition, cases that are not in the cache are skipped (evaluation of an interrupted run).

A *case* is a JSON-able dict ``{"sut", "seed", "algo", "ag", "no_xfail", "black", "post_process", "iters", "strategy",
"direction"}``.
"""

from __future__ import annotations

import ast
import copy
import json
import os
import random
import re
import subprocess
import time

from pathlib import Path

PY = "/venv/bin/python"
MONITORS = ["vlib.monitors.assertion_snapshot", "vlib.monitors.seed_roundtrip"]
VAR_RE = re.compile(r"^var_\d+$")


# ---------------------------------------------------------------------------------------------------------------------
# workload
# ---------------------------------------------------------------------------------------------------------------------
def case(sut, seed, ag="SIMPLE", algo="DYNAMOSA", no_xfail=False, black=True, post_process=True, iters=4, strategy="CASE",
         direction="BACKWARD", fault=None):
    c = {"sut": sut, "seed": seed, "algo": algo, "ag": ag, "no_xfail": no_xfail, "black": black, "post_process": post_process,
         "iters": iters, "strategy": strategy, "direction": direction}
    if fault:
        # an injected fault of the *environment* (not a change of the code), applied through vlib.monitors.genfile_breaks
        c["fault"] = fault
    return c


def directed_cases():
    """Fixed tuples (independent of VERIF_SEED) that were verified to produce the shapes the floors name."""
    return [
        # float assertion, no raising statement at all (SUT never raises): the ``needs_pytest`` path of the writer
        case("safefloats", 0, "SIMPLE"),
        case("safefloats", 1, "SIMPLE", black=False),
        case("safefloats", 0, "MUTATION_ANALYSIS"),
        # pytest.raises (no_xfail) incl. a non-builtin exception class that must be imported
        case("account", 0, "SIMPLE", no_xfail=True),
        case("queue_", 0, "SIMPLE", no_xfail=True),
        case("tri", 0, "NONE", no_xfail=True),
        # enum values in statements and assertions
        case("colors", 0, "SIMPLE"),
        case("colors", 0, "SIMPLE", no_xfail=True, black=False),
        # xfail markers, assertions on objects that are mutated later (watch list), result of the last call unused
        case("queue_", 0, "SIMPLE"),
        case("lastcall", 0, "SIMPLE"),
        case("lastcall", 1, "MUTATION_ANALYSIS"),
        case("lastcall", 0, "SIMPLE", post_process=False),
        case("account", 4, "SIMPLE", post_process=False, no_xfail=True),
        case("floats", 0, "SIMPLE"),
        case("floats", 2, "MUTATION_ANALYSIS", no_xfail=True),
        case("containers", 0, "SIMPLE"),
        case("strings", 0, "SIMPLE", no_xfail=True),
        case("printer", 0, "SIMPLE"),
        case("tri", 1, "NONE"),
        case("account", 1, "NONE"),
        # other algorithms / minimisation strategies
        case("lastcall", 2, "SIMPLE", algo="MIO"),
        case("tri", 2, "SIMPLE", algo="WHOLE_SUITE"),
        case("containers", 1, "SIMPLE", algo="RANDOM"),
        case("queue_", 1, "SIMPLE", strategy="COMBINED"),
        case("account", 2, "SIMPLE", strategy="SUITE", direction="FORWARD"),
        # SUT that uses random: seed fixture in the written file
        case("rng_user", 0, "SIMPLE"),
        # oracles on module-level state attached to void calls (the statement binds nothing once the unused target is dropped)
        case("counter", 4, "SIMPLE", iters=6),
        case("counter", 2, "SIMPLE", iters=6, direction="FORWARD"),
        case("counter", 5, "SIMPLE", iters=6, direction="FORWARD"),
        case("counter", 2, "MUTATION_ANALYSIS", iters=6),
        case("counter", 3, "SIMPLE", strategy="COMBINED", iters=6),
        # instances of classes nested in classes (isinstance / type-name assertions with dotted class names)
        case("nested", 0, "SIMPLE"),
        case("nested", 1, "SIMPLE", no_xfail=True, black=False),
        case("nested", 2, "MUTATION_ANALYSIS", iters=6),
        # an exception class that is private to the SUT module inside pytest.raises(...)
        case("privexc", 0, "SIMPLE", iters=5),
        case("privexc", 1, "SIMPLE", no_xfail=True, iters=5, black=False),
        # __all__ leaves out an enum class whose members are asserted values
        case("allenum", 0, "SIMPLE", iters=5),
        case("allenum", 1, "SIMPLE", no_xfail=True, iters=5),
        # fault injection: every assertion-filtering execution times out (what machine load does); the written file must
        # still pass, i.e. no unverified state-dependent assertion (class counters, ids) may be exported
        case("account", 0, "SIMPLE", fault="filter_execution_times_out"),
        case("account", 1, "SIMPLE", black=False, fault="filter_execution_times_out"),
        case("account", 3, "MUTATION_ANALYSIS", no_xfail=True, fault="filter_execution_times_out"),
    ]


def random_cases(seed, n, part, want_assertions=False):
    from vlib import sut_corpus

    rng = random.Random(seed * 1_000_003 + part * 7919 + 18)
    suts = list(sut_corpus.ALL) * 3 + list(sut_corpus.RANDOM_USING) + list(sut_corpus.GENFILES_EXTRA) * 4
    out = []
    for _ in range(n):
        ag = rng.choices(["SIMPLE", "MUTATION_ANALYSIS", "NONE"], [50, 25, 0 if want_assertions else 25])[0]
        out.append(case(
            rng.choice(suts),
            rng.randrange(100000),
            ag,
            algo=rng.choices(["DYNAMOSA", "MIO", "WHOLE_SUITE", "RANDOM", "MOSA"], [60, 10, 10, 12, 8])[0],
            no_xfail=rng.random() < 0.4,
            black=rng.random() < 0.7,
            post_process=rng.random() < 0.85,
            iters=rng.choice([2, 3, 4, 4, 5, 6]),
            strategy=rng.choices(["CASE", "SUITE", "COMBINED", "NONE"], [70, 10, 10, 10])[0],
            direction=rng.choice(["BACKWARD", "BACKWARD", "FORWARD"]),
        ))
    return out


def plan(tier, seed, want_assertions=False, per_chunk=None, random_chunks=None):
    quick = tier == "quick"
    per_chunk = per_chunk or (7 if quick else 32)
    random_chunks = random_chunks if random_chunks is not None else (10 if quick else 20)
    d = [c for c in directed_cases() if not (want_assertions and c["ag"] == "NONE")]
    specs = []
    dchunks = 6
    for i in range(dchunks):
        specs.append({"name": "directed", "part": i, "cases": d[i::dchunks]})
    for part in range(random_chunks):
        specs.append({"name": "random", "seed": seed, "part": part, "n": per_chunk, "want_assertions": want_assertions})
    return specs


def cases_of(spec):
    if spec["name"] == "directed":
        return spec["cases"]
    if spec["name"] == "cases":
        return spec["cases"]
    return random_cases(spec["seed"], spec["n"], spec["part"], spec.get("want_assertions", False))


# ---------------------------------------------------------------------------------------------------------------------
# running one case
# ---------------------------------------------------------------------------------------------------------------------
def case_spec(c, proj, out, monitors=None):
    cfg = {
        "test_case_output.no_xfail": bool(c["no_xfail"]),
        "test_case_output.format_with_black": bool(c["black"]),
        "test_case_output.post_process": bool(c["post_process"]),
        "test_case_output.minimization.test_case_minimization_strategy": c.get("strategy", "CASE"),
        "test_case_output.minimization.test_case_minimization_direction": c.get("direction", "BACKWARD"),
    }
    return {
        "module": c["sut"], "project_path": str(proj), "output_path": str(out), "algorithm": c["algo"], "seed": c["seed"],
        "budget": {"maximum_iterations": c["iters"]}, "assertion_generation": c["ag"], "config": cfg,
        "monitors": list(monitors if monitors is not None else MONITORS),
    }


def run_case(ctx, c, idx, monitors=None, timeout=400):
    """Run one pipeline for the case; returns {"case", "res", "proj", "out", "f1", "f1_path"} or None (inconclusive, reported)."""
    from vlib import core, sut_corpus
    from vlib.pyndriver import run_pipeline

    brk = ",".join(x for x in (os.environ.get("VERIF_BREAK", ""), c.get("fault") or "") if x)
    cache = os.environ.get("VERIF_GENFILES_CACHE")
    work = Path(ctx.scratch) / f"case{idx}"
    proj = sut_corpus.copy_to(work / "proj", names=sut_corpus.ALL + sut_corpus.RANDOM_USING + sut_corpus.GENFILES_EXTRA)
    out = work / "out"
    tag = f"{c['sut']}/seed{c['seed']}/{c['algo']}/{c['ag']}"
    res = None
    cache_f = None
    if cache:
        cache_f = Path(cache) / f"{core.stable_hash({'case': c, 'break': brk, 'monitors': monitors or MONITORS})}.json"
        if cache_f.exists():
            try:
                res = json.loads(cache_f.read_text())
                ctx.count("cache_hits")
            except Exception:  # noqa: BLE001
                res = None
    if res is None and cache and os.environ.get("VERIF_GENFILES_CACHE_ONLY"):
        ctx.count("cache_misses_skipped")  # evaluate only what an interrupted earlier run left in the cache
        return None
    if res is None:
        res = run_pipeline(case_spec(c, proj, out, monitors), timeout=timeout, env_extra={"VERIF_BREAK": brk})
        ctx.count("pipeline_runs")
        ctx.count("pipeline_wall_s", res.get("parent_wall_s", 0))
        if cache_f is not None and not res.get("timeout") and not res.get("exception"):
            cache_f.parent.mkdir(parents=True, exist_ok=True)
            tmp = cache_f.with_suffix(f".{os.getpid()}.tmp")
            tmp.write_text(json.dumps(res))
            tmp.replace(cache_f)
    if res.get("timeout"):
        ctx.inconclusive_because(f"{tag}: driver timeout")
        return None
    if res.get("exception"):
        ctx.inconclusive_because(f"{tag}: driver exception {res['exception'][:200]} :: {str(res.get('traceback', ''))[-300:]}")
        return None
    for e in res.get("events", []):
        if e.get("ev") == "monitor-finish-failed":
            ctx.inconclusive_because(f"{tag}: monitor finish failed: {e.get('error')}")
            return None
    name = f"test_{c['sut']}.py"
    f1 = res.get("files", {}).get(name)
    f1_path = None
    if f1 is not None:
        out.mkdir(parents=True, exist_ok=True)
        f1_path = out / name
        f1_path.write_text(f1)  # (re)materialise: the result may come from the cache
    return {"case": c, "res": res, "proj": proj, "out": out, "f1": f1, "f1_path": f1_path, "tag": tag}


def unverified_assertions(res):
    """True when an assertion-filtering execution of the run timed out (machine load): AssertionGenerator then keeps every
    assertion of that test unverified (it fails open), so state-dependent assertions may be in the written file."""
    counts = next((e["counts"] for e in res.get("events", []) if e.get("ev") == "log-counts"), {})
    return counts.get("filter_results_with_timeout", 0) > 0


def monitor_calls(res, monitor):
    for e in res.get("events", []):
        if e.get("ev") == "monitor-calls" and e.get("monitor") == monitor:
            return e.get("calls", {})
    return None


# ---------------------------------------------------------------------------------------------------------------------
# pytest in a fresh interpreter (C18)
# ---------------------------------------------------------------------------------------------------------------------
def run_pytest(test_file, cwd, workdir, timeout=300):
    """Returns {"rc", "stdout", "tests": [{"name", "outcome", "message", "text"}], "timeout"}; outcome in
    passed / failed / error / xfailed / skipped."""
    import xml.etree.ElementTree as ET

    xml = Path(workdir) / "junit.xml"
    if xml.exists():
        xml.unlink()
    env = dict(os.environ)
    env["PYTHONDONTWRITEBYTECODE"] = "1"
    env.pop("PYTHONPATH", None)
    env.pop("SE2P_PYNGUIN_VERIF", None)
    cmd = [PY, "-m", "pytest", "-q", "-p", "no:cacheprovider", "-o", "junit_family=xunit2", f"--rootdir={workdir}", f"--junitxml={xml}",
           str(test_file)]
    t0 = time.time()
    try:
        cp = subprocess.run(cmd, cwd=str(cwd), env=env, capture_output=True, text=True, timeout=timeout)
    except subprocess.TimeoutExpired:
        return {"rc": None, "stdout": "", "tests": [], "timeout": True, "wall": time.time() - t0}
    out = {"rc": cp.returncode, "stdout": cp.stdout[-6000:] + cp.stderr[-1500:], "tests": [], "timeout": False, "wall": time.time() - t0}
    if not xml.exists():
        return out
    root = ET.parse(xml).getroot()
    for tcase in root.iter("testcase"):
        rec = {"name": tcase.get("name", ""), "classname": tcase.get("classname", ""), "outcome": "passed", "message": "", "text": ""}
        for child in tcase:
            if child.tag in ("failure", "error"):
                rec["outcome"] = "failed" if child.tag == "failure" else "error"
                rec["message"] = child.get("message", "") or ""
                rec["text"] = (child.text or "")[-3000:]
            elif child.tag == "skipped":
                rec["outcome"] = "xfailed" if child.get("type") == "pytest.xfail" else "skipped"
                rec["message"] = child.get("message", "") or ""
        out["tests"].append(rec)
    return out


# ---------------------------------------------------------------------------------------------------------------------
# source normalisation (C19, C24)
# ---------------------------------------------------------------------------------------------------------------------
class FileInfo:
    def __init__(self, text, module):
        self.text = text
        self.tree = ast.parse(text)
        self.module = module
        self.alias = None
        self.public_names: set[str] = set()
        self.imports_pytest = False
        self.functions: list[ast.FunctionDef] = []
        for node in self.tree.body:
            if isinstance(node, ast.Import):
                for a in node.names:
                    if a.name == "pytest":
                        self.imports_pytest = True
            elif isinstance(node, ast.ImportFrom) and node.module == module and node.level == 0:
                self.public_names.update(a.asname or a.name for a in node.names)
            elif isinstance(node, ast.Assign) and len(node.targets) == 1 and isinstance(node.targets[0], ast.Name):
                v = node.value
                if (isinstance(v, ast.Subscript) and isinstance(v.value, ast.Attribute) and v.value.attr == "modules"
                        and isinstance(v.value.value, ast.Name) and v.value.value.id == "sys"):
                    self.alias = node.targets[0].id
            elif isinstance(node, ast.FunctionDef) and node.name.startswith("test_"):
                self.functions.append(node)

    def function(self, name):
        for f in self.functions:
            if f.name == name:
                return f
        return None


class _SutRef(ast.NodeTransformer):
    """``Name`` of a from-imported public SUT name -> ``<alias>.Name`` (both spell the same object in the written file)."""

    def __init__(self, names, alias):
        self.names, self.alias = names, alias

    def visit_Name(self, node):  # noqa: N802
        if node.id in self.names and isinstance(node.ctx, ast.Load):
            return ast.copy_location(ast.Attribute(value=ast.Name(id=self.alias, ctx=ast.Load()), attr=node.id, ctx=ast.Load()), node)
        return node

    def visit_Attribute(self, node):  # noqa: N802
        # <alias>.X stays; do not rewrite attribute *names*
        node.value = self.visit(node.value)
        return node

    def visit_keyword(self, node):
        node.value = self.visit(node.value)
        return node


class _Alpha(ast.NodeTransformer):
    def __init__(self):
        self.map: dict[str, str] = {}

    def visit_Name(self, node):  # noqa: N802
        if VAR_RE.match(node.id):
            if node.id not in self.map:
                self.map[node.id] = f"v{len(self.map)}"
            return ast.copy_location(ast.Name(id=self.map[node.id], ctx=node.ctx), node)
        return node


def normalise_function(fn, names=(), alias=None, alpha=True):
    """-> {"decorators": [str], "body": [str], "nodes": [ast stmt]} of a deep copy with SUT references canonicalised and
    var_N alpha-renamed in first-occurrence (source) order."""
    fn = copy.deepcopy(fn)
    if alias and names:
        fn = _SutRef(set(names), alias).visit(fn)
    if alpha:
        fn = _Alpha().visit(fn)
    ast.fix_missing_locations(fn)
    body = list(fn.body)
    # a leading bare string statement is parsed as the docstring; it is an ordinary expression statement of the test
    return {"decorators": [ast.unparse(d) for d in fn.decorator_list], "body": [ast.unparse(s) for s in body], "nodes": body}


def unparse_code(code):
    """Whitespace/quote-insensitive form of a rendered statement or assertion (None if it does not parse)."""
    try:
        return ast.unparse(ast.parse(code.strip()))
    except SyntaxError:
        return None


def is_raises_block(node):
    if not isinstance(node, ast.With) or len(node.items) != 1:
        return None
    ce = node.items[0].context_expr
    if (isinstance(ce, ast.Call) and isinstance(ce.func, ast.Attribute) and ce.func.attr == "raises"
            and isinstance(ce.func.value, ast.Name) and ce.func.value.id == "pytest" and ce.args):
        a = ce.args[0]
        return ast.unparse(a).rsplit(".", 1)[-1]
    return None


def is_xfail_decorated(fn):
    return any("xfail" in ast.unparse(d) for d in fn.decorator_list)


def rhs_key(node):
    """Statement identity that is insensitive to (un)binding: ``var_N = <e>`` and ``<e>`` have the same key."""
    if isinstance(node, ast.Assign) and len(node.targets) == 1 and isinstance(node.targets[0], ast.Name) and VAR_RE.match(node.targets[0].id):
        return ast.unparse(node.value)
    if isinstance(node, ast.Expr):
        return ast.unparse(node.value)
    return ast.unparse(node)


def code_rhs_key(code):
    try:
        tree = ast.parse(code.strip())
    except SyntaxError:
        return None
    if len(tree.body) != 1:
        return ast.unparse(tree)
    return rhs_key(tree.body[0])


def align_statements(stmts, others):
    """For every snapshot statement the index of its counterpart in ``others`` = [(bound name | None, rhs key[, set of assertion
    texts])] or None.  Order-preserving alignment of maximal weight (weighted LCS): a statement corresponds to the statement binding
    the same name with the same right-hand side (names are unique in a test case) or to an *unbound* statement with the same
    right-hand side (the binding was removed); among several identical candidates (``m.clear()`` five times) the alignment that
    keeps the order, matches most statements and - when assertion texts are given - shares most assertions wins."""
    n, m = len(stmts), len(others)
    keys = [code_rhs_key(s["code"]) for s in stmts]
    texts = [{unparse_code(a["code"]) for a in (s.get("asserts") or []) if a.get("code")} - {None} for s in stmts]

    def weight(a, b):
        ob, ok = others[b][0], others[b][1]
        if ok != keys[a]:
            return 0
        sb = stmts[a]["bound"]
        if ob is not None:
            w = 1000 if sb == ob else 0
        else:
            w = 10
        if w and len(others[b]) > 2 and others[b][2] is not None:
            w += len(texts[a] & set(others[b][2]))
        return w

    # best[a][b] = maximal weight aligning stmts[a:] with others[b:]
    best = [[0] * (m + 1) for _ in range(n + 1)]
    for a in range(n - 1, -1, -1):
        for b in range(m - 1, -1, -1):
            v = max(best[a + 1][b], best[a][b + 1])
            w = weight(a, b)
            if w:
                v = max(v, w + best[a + 1][b + 1])
            best[a][b] = v
    out, a, b = [None] * n, 0, 0
    while a < n and b < m:
        w = weight(a, b)
        if w and best[a][b] == w + best[a + 1][b + 1]:
            out[a] = b
            a, b = a + 1, b + 1
        elif best[a][b] == best[a + 1][b]:
            a += 1
        else:
            b += 1
    return out


def bound_of(node):
    if isinstance(node, ast.Assign) and len(node.targets) == 1 and isinstance(node.targets[0], ast.Name) and VAR_RE.match(node.targets[0].id):
        return node.targets[0].id
    return None


def assert_kind(node_or_text):
    """Coarse class of an assert statement (mechanism keys)."""
    node = node_or_text
    if isinstance(node, str):
        try:
            node = ast.parse(node.strip()).body[0]
        except (SyntaxError, IndexError):
            return "unparsable"
    if not isinstance(node, ast.Assert):
        return "not-an-assert"
    text = ast.unparse(node.test)
    t = node.test
    if "pytest.approx" in text:
        return "float-approx"
    if isinstance(t, ast.Call) and isinstance(t.func, ast.Name) and t.func.id == "isinstance":
        return "isinstance"
    if isinstance(t, ast.Compare) and len(t.ops) == 1:
        left, right = t.left, t.comparators[0]
        if isinstance(left, ast.JoinedStr):
            return "typename"
        src = "attr" if isinstance(left, ast.Attribute) else ("len" if isinstance(left, ast.Call) and isinstance(left.func, ast.Name) and left.func.id == "len" else "var")
        if src == "len":
            return "len"
        if isinstance(t.ops[0], ast.Is):
            return f"{src}-is"
        if isinstance(right, ast.Attribute):
            return f"{src}-eq-enum"
        if isinstance(right, (ast.List, ast.Tuple, ast.Set, ast.Dict)) or (isinstance(right, ast.Call) and ast.unparse(right.func) in ("set", "complex")):
            return f"{src}-eq-collection" if not (isinstance(right, ast.Call) and ast.unparse(right.func) == "complex") else f"{src}-eq-complex"
        if isinstance(right, ast.Constant):
            return f"{src}-eq-{type(right.value).__name__}"
        if isinstance(right, ast.UnaryOp) and isinstance(right.operand, ast.Constant):
            return f"{src}-eq-{type(right.operand.value).__name__}"
        return f"{src}-eq-other"
    return "other"


def stmt_kind(node):
    """Coarse class of a test statement (mechanism keys)."""
    if isinstance(node, ast.Assert):
        return "assert:" + assert_kind(node)
    if is_raises_block(node) is not None:
        return "pytest-raises-block"
    if isinstance(node, (ast.With, ast.For, ast.While, ast.If, ast.Try)):
        return "compound:" + type(node).__name__.lower()
    v = None
    pre = "stmt"
    if isinstance(node, ast.Assign):
        v, pre = node.value, "assign"
    elif isinstance(node, ast.Expr):
        v, pre = node.value, "expr"
    if v is None:
        return type(node).__name__.lower()
    if isinstance(v, ast.Lambda):
        k = "lambda"
    elif isinstance(v, ast.Call):
        k = "call"
        if any(isinstance(n, ast.Lambda) for n in ast.walk(v)):
            k = "call-with-lambda"
    elif isinstance(v, (ast.Constant, ast.UnaryOp)):
        k = "literal"
    elif isinstance(v, (ast.List, ast.Tuple, ast.Set, ast.Dict)):
        k = "collection"
    elif isinstance(v, ast.Attribute):
        k = "attribute"
    elif isinstance(v, ast.Name):
        k = "name"
    else:
        k = type(v).__name__.lower()
    return f"{pre}:{k}"
