"""Ground truth (uninstrumented twin under sys.monitoring) and instrumented execution of one module.

Twin:          compile the source, run it uninstrumented, record LINE / BRANCH events of exactly its own
               code objects with sys.monitoring (tool id 3).  Never active on instrumented code objects.
Instrumented:  the same source instrumented by pynguin's real transformer (build_transformer, seeding
               always on, as install_import_hook does), executed inside `with tracer:` like the executor.
"""

from __future__ import annotations

import contextlib
import copy
import dis
import io
import sys
import types

from vlib import values as V

TOOL = 3
COND_JUMPS = {"POP_JUMP_IF_TRUE", "POP_JUMP_IF_FALSE", "POP_JUMP_IF_NONE", "POP_JUMP_IF_NOT_NONE", "FOR_ITER"}


def all_code(code):
    yield code
    for k in code.co_consts:
        if isinstance(k, types.CodeType):
            yield from all_code(k)


def code_key(code):
    return (code.co_qualname, code.co_firstlineno)


class Outcome:
    __slots__ = ("kind", "value", "exc_type", "exc_msg", "stdout", "args_after", "globals_after", "oplog", "consumed", "tb_frames")

    def summary(self):
        return {"kind": self.kind, "value": repr(self.value)[:200] if self.kind == "ret" else None, "exc": self.exc_type,
                "msg": (self.exc_msg or "")[:160], "stdout": self.stdout[:80]}


def run_call(ns, fname, args, global_names=("GLOBAL_COUNTER", "GLOBAL_FLAG", "MODE")):
    """Call ns[fname](*args) capturing every observable effect."""
    o = Outcome()
    V.OPLOG.clear()
    buf = io.StringIO()
    o.tb_frames = []
    try:
        with contextlib.redirect_stdout(buf):
            o.value = ns[fname](*args)
        o.kind, o.exc_type, o.exc_msg = "ret", None, None
    except (Exception, V.Cancelled) as e:  # noqa: BLE001  (Cancelled: the corpus' own BaseException that is not an Exception)
        o.kind, o.value, o.exc_type, o.exc_msg = "exc", None, type(e).__name__, str(e)
        tb = e.__traceback__
        while tb is not None:
            o.tb_frames.append((tb.tb_frame.f_code.co_filename.rsplit("/", 1)[-1], tb.tb_frame.f_code.co_name))
            tb = tb.tb_next
    o.stdout = buf.getvalue()
    o.oplog = set(V.OPLOG)
    o.consumed = [a.consumed for a in args if isinstance(a, V.OneShot)]
    try:
        o.args_after = copy.deepcopy([a for a in args if isinstance(a, (list, dict, set, bytearray))])
    except Exception:  # noqa: BLE001
        o.args_after = None
    o.globals_after = {g: copy.deepcopy(ns[g]) for g in global_names if g in ns}
    return o


def same_outcome(a: Outcome, b: Outcome):
    """Returns None if equal, else a short description of the first difference."""
    if a.kind != b.kind:
        return f"kind {a.kind}({a.exc_type}) vs {b.kind}({b.exc_type}: {(b.exc_msg or '')[:120]})"
    if a.kind == "exc" and a.exc_type != b.exc_type:
        return f"exception type {a.exc_type} vs {b.exc_type}: {(b.exc_msg or '')[:120]}"
    if a.kind == "ret" and not V.same_value(a.value, b.value):
        return f"return value {a.value!r} vs {b.value!r}"
    if a.stdout != b.stdout:
        return f"stdout {a.stdout!r} vs {b.stdout!r}"
    if a.args_after is not None and b.args_after is not None and not V.same_value(a.args_after, b.args_after):
        return f"mutable args after call {a.args_after!r} vs {b.args_after!r}"
    if not V.same_value(a.globals_after, b.globals_after):
        return f"module globals {a.globals_after!r} vs {b.globals_after!r}"
    return None


class Twin:
    """Uninstrumented execution with LINE/BRANCH ground truth."""

    def __init__(self, source: str, filename: str):
        self.code = compile(source, filename, "exec")
        self.codes = list(all_code(self.code))
        self.by_key = {code_key(c): c for c in self.codes}
        # conditional jumps per code object in offset order
        self.jumps: dict[tuple, list[dict]] = {}
        for c in self.codes:
            ins = list(dis.get_instructions(c))
            js = []
            for i, ins_ in enumerate(ins):
                if ins_.opname in COND_JUMPS:
                    nxt = ins[i + 1].offset if i + 1 < len(ins) else None
                    js.append({"offset": ins_.offset, "op": ins_.opname, "target": ins_.argval, "fallthrough": nxt,
                               "line": ins_.positions.lineno if ins_.positions else None})
            self.jumps[code_key(c)] = js
        self._events: list = []
        self.ns: dict = {}
        self.import_lines: set = set()
        self.import_branches: set = set()
        self.import_entered: set = set()

    def _start(self):
        mon = sys.monitoring
        mon.use_tool_id(TOOL, "verif-groundtruth")
        mon.register_callback(TOOL, mon.events.LINE, self._on_line)
        mon.register_callback(TOOL, mon.events.BRANCH, self._on_branch)
        mon.register_callback(TOOL, mon.events.PY_START, self._on_start)
        mon.register_callback(TOOL, mon.events.PY_RESUME, self._on_start)
        for c in self.codes:
            mon.set_local_events(TOOL, c, mon.events.LINE | mon.events.BRANCH | mon.events.PY_START | mon.events.PY_RESUME)

    def _stop(self):
        mon = sys.monitoring
        for c in self.codes:
            mon.set_local_events(TOOL, c, 0)
        for ev in (mon.events.LINE, mon.events.BRANCH, mon.events.PY_START, mon.events.PY_RESUME):
            mon.register_callback(TOOL, ev, None)
        mon.free_tool_id(TOOL)

    def _on_line(self, code, line):
        self._events.append(("L", code_key(code), line))

    def _on_branch(self, code, src, dst):
        self._events.append(("B", code_key(code), src, dst))

    def _on_start(self, code, offset):
        self._events.append(("S", code_key(code)))

    def _collect(self):
        lines, branches, entered = set(), set(), set()
        for ev in self._events:
            if ev[0] == "L":
                lines.add((ev[1], ev[2]))
            elif ev[0] == "S":
                entered.add(ev[1])
            else:
                _, key, src, dst = ev
                js = self.jumps.get(key, [])
                for ordinal, j in enumerate(js):
                    if j["offset"] == src:
                        branches.add((key, ordinal, dst != j["fallthrough"]))
                        break
        self._events = []
        return lines, branches, entered

    def do_import(self):
        self.ns = {"__name__": "twin"}
        self._start()
        try:
            buf = io.StringIO()
            with contextlib.redirect_stdout(buf):
                exec(self.code, self.ns)  # noqa: S102
        finally:
            self._stop()
        self.import_lines, self.import_branches, self.import_entered = self._collect()

    def call(self, fname, args):
        """Returns (Outcome, lines {(codekey, line)}, branches {(codekey, ordinal, jumped)}, entered {codekey})."""
        self._start()
        try:
            out = run_call(self.ns, fname, args)
        finally:
            self._stop()
        lines, branches, entered = self._collect()
        return out, lines, branches, entered


class Instrumented:
    """The same module instrumented by the real transformer."""

    def __init__(self, source: str, filename: str, modname: str, metrics, to_cover=None):
        import pynguin.configuration as config

        from pynguin.analyses.constants import ConstantPool, DynamicConstantProvider, EmptyConstantProvider
        from pynguin.instrumentation.machinery import build_transformer
        from pynguin.instrumentation.tracer import SubjectProperties

        self.sp = SubjectProperties()
        self.pool = ConstantPool()
        self.provider = DynamicConstantProvider(self.pool, EmptyConstantProvider(), 0, 50)
        self.transformer = build_transformer(self.sp, set(metrics), to_cover or config.ToCoverConfiguration(), self.provider)
        self.raw = compile(source, filename, "exec")
        self.modname = modname
        self.tracer = self.sp.instrumentation_tracer
        self.ns: dict = {}
        self.icode = None

    def instrument(self):
        self.icode = self.transformer.instrument_code(self.raw, self.modname)

    def do_import(self):
        self.ns = {"__name__": "twin"}
        buf = io.StringIO()
        with self.tracer, contextlib.redirect_stdout(buf):
            exec(self.icode, self.ns)  # noqa: S102
        self.tracer.store_import_trace()

    def call(self, fname, args):
        self.tracer.init_trace()
        self.tracer.enable()
        with self.tracer:
            out = run_call(self.ns, fname, args)
        left_disabled = self.tracer.is_disabled()
        trace = self.tracer.get_trace()
        return out, trace, left_disabled

    # ---- registry views ---------------------------------------------------------------
    def code_key_of(self, code_object_id):
        c = self.sp.existing_code_objects[code_object_id].code_object
        return code_key(c)

    def predicates_by_code(self):
        """{codekey: [(predicate_id, line, node_index)] in node-index order}."""
        out: dict = {}
        for pid, meta in self.sp.existing_predicates.items():
            out.setdefault(self.code_key_of(meta.code_object_id), []).append((pid, meta.line_no, meta.node.index))
        for k in out:
            out[k].sort(key=lambda t: t[2])
        return out

    def registered_lines(self):
        """{(codekey, line)} of the line goals, plus the raw metadata for sanity checks."""
        out = set()
        for meta in self.sp.existing_lines.values():
            out.add((self.code_key_of(meta.code_object_id), meta.line_number))
        return out

    def covered_lines(self, trace):
        out = set()
        for lid in trace.covered_line_ids:
            meta = self.sp.existing_lines[lid]
            out.add((self.code_key_of(meta.code_object_id), meta.line_number))
        return out
