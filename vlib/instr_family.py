"""Shared workload loop of the instrumentation checks (C01, C02, C03, C05).

iter_program() yields, for one generated program and one metric subset, either an instrumentation
failure or per-call observations (reference outcome from the twin with LINE/BRANCH ground truth,
instrumented outcome + trace).
"""

from __future__ import annotations

import itertools
import random
import re

from vlib import instr, progs
from vlib import values as V

ALL_SUBSETS = [s for r in range(0, 4) for s in itertools.combinations(("BRANCH", "LINE", "CHECKED"), r)]


def metric_set(names):
    import pynguin.configuration as config

    return {getattr(config.CoverageMetric, n) for n in names}


def untyped_args(rng: random.Random):
    """Pairs for g(u, v): adversarial values, biased to the classes the property names."""
    names = [n for n, _, _ in V.VALUES]
    special = ["fnan", "int2^53", "int2^53+1", "int10^400", "u-onlylt1", "u-onlylt2", "u-onlyeq1", "u-full1", "u-full2", "u-nonbooleq1",
               "oneshot-123", "oneshot-abc", "gen-01", "t-ab", "s-abc", "set-1", "set-12", "dec1.5", "c1+2j", "u-len0", "u-contains",
               "u-raiseq", "u-raisebool", "f-0.0", "finf", "l-nan"]
    k = rng.random()
    if k < 0.1:
        n = rng.choice(["fnan", "decNaN", "cnan", "l-nan", "u-full1", "u-onlyeq1", "int2^53", "s-abc", "set-1", "u-nonbooleq1"])
        return (n, n + "=")  # the same object twice
    if k < 0.2:
        return ("s-abc", rng.choice(["t-ab", "s-a", "t-empty", "s-empty", "t-12"]))  # str.startswith(tuple)
    if k < 0.6:
        a = rng.choice(special)
        b = rng.choice(special if rng.random() < 0.5 else names)
        return (a, b) if rng.random() < 0.5 else (b, a)
    return (rng.choice(names), rng.choice(names))


def msg_class(msg: str) -> str:
    """Normalise an exception message into a mechanism label (no numbers, names or addresses)."""
    m = re.sub(r"0x[0-9a-f]+", "", msg or "")
    m = re.sub(r"'[^']*'", "'_'", m)
    m = re.sub(r"\d+", "N", m)
    return " ".join(m.split()[:7])


def pynguin_frame(frames):
    """Innermost frame inside pynguin's own sources, as 'file:function' (mechanism anchor)."""
    last = None
    for fn, func in frames:
        if fn in ("tracer.py", "constants.py", "typetracing.py", "type_utils.py", "transformer.py", "python3_10.py", "python3_11.py",
                  "python3_12.py", "controlflow.py", "string_subtypes.py"):
            last = f"{fn}:{func}"
    return last


class ProgramCase:
    def __init__(self, seed, index, scratch):
        self.seed, self.index = seed, index
        self.prog = progs.generate(seed, index)
        self.modname = f"vp_{seed}_{index}"
        self.filename = str(scratch / f"{self.modname}.py")
        with open(self.filename, "w") as f:
            f.write(self.prog["source"])
        rng = random.Random(f"args-{seed}-{index}")
        self.calls = []
        for fn in self.prog["typed"]:
            for _ in range(4):
                self.calls.append((fn, "typed", progs.typed_args(rng)))
        for fn in self.prog["untyped"]:
            for _ in range(8):
                self.calls.append((fn, "untyped", untyped_args(rng)))

    @staticmethod
    def materialise(kind, args):
        if kind == "typed":
            import copy

            return copy.deepcopy(args)
        vals = [V.fresh(n) for n in args]
        # the same name twice, marked with a trailing "=" -> the very same object for both parameters (x == x, x in [x])
        if len(args) == 2 and args[1] == args[0] + "=":
            return (vals[0], vals[0])
        return tuple(vals)

    def describe(self, call):
        fn, kind, args = call
        return {"program": [self.seed, self.index], "function": fn, "args": repr(args)[:200]}


def source_snippet(prog_source: str, fn: str, limit=1200):
    i = prog_source.find(f"def {fn}(")
    if i < 0:
        return ""
    j = prog_source.find("\ndef ", i + 1)
    return prog_source[i: j if j > 0 else None][:limit]
