"""Seeded generator of small, importable Python modules that exercise every mutation operator.

Only module level and class level code is ever executed (at import and when a mutant module is
exec'ed); function bodies are never run, so they may reference undefined names.  Module and class
level code is restricted to defs, classes and constant assignments: no loops, so no mutant of a
generated module can hang at exec time.
"""

from __future__ import annotations

import random

ARITH = ["+", "-", "*", "/", "//", "%", "**"]
BITOPS = ["&", "|", "^", "<<", ">>"]
CMPOPS = ["<", ">", "<=", ">=", "==", "!=", "is", "is not", "in", "not in"]
EXC = ["ValueError", "RuntimeError", "KeyError", "TypeError", "Exception", "ZeroDivisionError"]
STRS = ["abc", "", "mutpy", "python", "x y", "k"]


class _Gen:
    def __init__(self, rng: random.Random, compact: bool = False):
        self.rng = rng
        self.compact = compact
        self.names = ["a", "b", "c", "n", "xs", "s"]

    # ---------------------------------------------------------------- expressions
    def const(self):
        r = self.rng
        k = r.random()
        if k < 0.45:
            return str(r.choice([0, 1, 2, 3, 7, 10, 100, -1]))
        if k < 0.6:
            return repr(r.choice([0.0, 0.5, 1.0, 2.5, 1e3]))
        if k < 0.8:
            return repr(r.choice(STRS))
        if k < 0.95:
            return r.choice(["True", "False"])
        return "None"

    def name(self):
        return self.rng.choice(self.names)

    def slice_(self, d):
        r = self.rng
        lo = self.expr(d + 2) if r.random() < 0.7 else ""
        up = self.expr(d + 2) if r.random() < 0.7 else ""
        if r.random() < 0.35:
            return f"{lo}:{up}:{self.expr(d + 2)}"
        return f"{lo}:{up}"

    def expr(self, d=0):
        r = self.rng
        if d >= 3 or r.random() < 0.35:
            return self.const() if r.random() < 0.45 else self.name()
        k = r.random()
        if k < 0.22:
            return f"({self.expr(d + 1)} {r.choice(ARITH)} {self.expr(d + 1)})"
        if k < 0.30:
            return f"({self.expr(d + 1)} {r.choice(BITOPS)} {self.expr(d + 1)})"
        if k < 0.40:
            return f"({r.choice(['-', '+', 'not ', '~'])}{self.expr(d + 1)})"
        if k < 0.50:
            op = r.choice(["and", "or"])
            parts = [self.expr(d + 1) for _ in range(r.randint(2, 3))]
            return "(" + f" {op} ".join(parts) + ")"
        if k < 0.64:
            s = self.expr(d + 1)
            for _ in range(r.randint(1, 2)):
                s += f" {r.choice(CMPOPS)} {self.expr(d + 1)}"
            return f"({s})"
        if k < 0.70:
            args = ", ".join(self.expr(d + 1) for _ in range(r.randint(0, 2)))
            f = r.choice(["len", "abs", "f", "max", "obj.method", "print", "log.warning", "str"])
            return f"{f}({args})"
        if k < 0.78:
            return f"{self.name()}[{self.slice_(d)}]"
        if k < 0.81:
            return f"{self.name()}[{self.expr(d + 1)}]"
        if k < 0.85:
            return f"({self.expr(d + 1)} if {self.expr(d + 1)} else {self.expr(d + 1)})"
        if k < 0.89:
            elts = ", ".join(self.expr(d + 1) for _ in range(r.randint(0, 3)))
            return r.choice(["[{}]", "({},)", "{{0, {}}}"]).format(elts) if elts else "[]"
        if k < 0.91:
            return f"{{{self.expr(d + 2)}: {self.expr(d + 1)}}}"
        if k < 0.94:
            return f"[{self.expr(d + 1)} for i in {self.name()} if {self.expr(d + 1)}]"
        if k < 0.96:
            return f"(lambda q: {self.expr(d + 1)})"
        if k < 0.99:
            spec = r.choice(["", "", ":>4", ":{n}", "!r"])
            return f'f"v={{{self.name()}{spec}}} {r.choice(STRS)}"'
        return f"{self.name()}.attr"

    # ---------------------------------------------------------------- statements
    def block(self, d, ind, in_loop, n=None):
        r = self.rng
        n = n if n is not None else r.randint(1, 2)
        out = []
        for _ in range(n):
            out.extend(self.stmt(d, ind, in_loop))
        return out

    def stmt(self, d, ind, in_loop):
        r = self.rng
        p = "    " * ind
        k = r.random()
        if d >= 2:
            k = k * 0.42  # simple statements only
        if k < 0.12:
            return [f"{p}{self.name()} = {self.expr()}"]
        if k < 0.22:
            op = r.choice(ARITH + BITOPS)
            return [f"{p}{self.name()} {op}= {self.expr(1)}"]
        if k < 0.29:
            return [f"{p}return {self.expr()}" if r.random() < 0.85 else f"{p}return"]
        if k < 0.33:
            e = r.choice(EXC)
            form = r.choice([e, f"{e}({self.const()})", f"{e}('bad ' + {self.name()})", f"errors.{e}()"])
            return [f"{p}raise {form}"]
        if k < 0.36:
            return [f"{p}{self.expr(1)}"]
        if k < 0.38:
            if in_loop:
                return [f"{p}{r.choice(['break', 'continue'])}"]
            return [f"{p}pass"]
        if k < 0.40:
            return [f"{p}{self.name()}, {self.name()} = {self.expr(2)}, {self.expr(2)}"]
        if k < 0.42:
            return [f"{p}assert {self.expr(1)}, 'msg'"]
        if k < 0.56:
            out = [f"{p}if {self.expr(1)}:"] + self.block(d + 1, ind + 1, in_loop)
            if r.random() < 0.35:
                out += [f"{p}elif {self.expr(1)}:"] + self.block(d + 1, ind + 1, in_loop)
            if r.random() < 0.45:
                out += [f"{p}else:"] + self.block(d + 1, ind + 1, in_loop)
            return out
        if k < 0.65:
            out = [f"{p}while {self.expr(1)}:"] + self.block(d + 1, ind + 1, True)
            if r.random() < 0.5:
                out += [f"{p}    if {self.expr(2)}:", f"{p}        {r.choice(['break', 'continue'])}"]
            if r.random() < 0.2:
                out += [f"{p}else:"] + self.block(d + 1, ind + 1, in_loop, 1)
            return out
        if k < 0.76:
            it = r.choice([f"range({self.expr(2)})", self.name(), f"enumerate({self.name()})", f"{self.name()}[{self.slice_(1)}]"])
            out = [f"{p}for i in {it}:"] + self.block(d + 1, ind + 1, True)
            if r.random() < 0.5:
                out += [f"{p}    if {self.expr(2)}:", f"{p}        {r.choice(['break', 'continue'])}"]
            return out
        if k < 0.88:
            out = [f"{p}try:"] + self.block(d + 1, ind + 1, in_loop)
            for _ in range(r.randint(1, 2)):
                h = r.choice(["except {e}:", "except {e} as err:", "except ({e}, OSError):", "except:"]).format(e=r.choice(EXC))
                out.append(f"{p}{h}")
                hk = r.random()
                if hk < 0.2:
                    out.append(f"{p}    pass")
                elif hk < 0.4:
                    out.append(f"{p}    raise")
                else:
                    out += self.block(d + 1, ind + 1, in_loop)
                if h == "except:":
                    break
            if r.random() < 0.25:
                out += [f"{p}else:"] + self.block(d + 1, ind + 1, in_loop, 1)
            if r.random() < 0.25:
                out += [f"{p}finally:"] + self.block(d + 1, ind + 1, False, 1)
            return out
        if k < 0.92:
            return [f"{p}with open({self.expr(2)}) as fh:"] + self.block(d + 1, ind + 1, in_loop)
        if k < 0.97:
            out = [f"{p}match {self.name()}:"]
            pats = r.sample(["0", "'x'", "[q, r]", "{'k': v}", "Point(x=0)", "1 | 2", "str() as t"], r.randint(1, 3)) + ["_"]
            for pat in pats[: r.randint(1, len(pats))]:
                guard = f" if {self.expr(2)}" if r.random() < 0.3 and pat != "_" else ""
                out.append(f"{p}    case {pat}{guard}:")
                out += self.block(d + 2, ind + 2, in_loop, 1)
            return out
        out = [f"{p}def inner(z, w=1):"] + self.block(d + 1, ind + 1, False)
        return out

    # ---------------------------------------------------------------- definitions
    def params(self, method):
        r = self.rng
        ps = ["self"] if method else []
        ps += r.sample(["a", "b", "c", "n"], r.randint(0, 3))
        if r.random() < 0.4:
            ps.append(f"xs={r.choice(['None', '0', '()', repr('d')])}")
        if r.random() < 0.2:
            ps.append("*args")
        if r.random() < 0.25:
            if not any(x.startswith("*") for x in ps):
                ps.append("*")
            ps.append(f"s={self.const()}")
        if r.random() < 0.2:
            ps.append("**kw")
        return ", ".join(ps)

    def func(self, name, ind=0, method=False, decorators=None, supercall=None):
        """supercall: None | 'first' | 'last' | 'middle'."""
        r = self.rng
        p = "    " * ind
        out = [f"{p}@{d}" for d in (decorators or [])]
        out.append(f"{p}def {name}({self.params(method)}):")
        if r.random() < 0.3:
            out.append(f'{p}    """Doc of {name}."""')
        body = self.block(0, ind + 1, False, r.randint(1, 3) if not method else r.randint(1, 2))
        if self.compact and len(body) > 14:
            body = self.block(1, ind + 1, False, 2)
        call = f"{p}    super().{name}()"
        if supercall == "first":
            body = [call] + body
        elif supercall == "last":
            body = body + [call]
        elif supercall == "middle":
            body = self.block(1, ind + 1, False, 1) + [call] + body
        return out + body

    def module(self, nfuncs=None):
        r = self.rng
        out = ['"""Generated module."""', "import functools", "", "LIMIT = " + str(r.choice([3, 10, 64])),
               f"NAME = {r.choice(STRS)!r}", f"FLAG = {r.choice(['True', 'False'])}",
               f"RATIO = {r.choice(['2 * 3', '7 - 2', '2 ** 3', '9 // 2', '1.5 + 1', '-4', '~3', '6 & 3', '1 << 2', '5 % 3'])}", "",
               "def deco(fn):", "    return fn", "",
               "def deco_arg(k):", "    def wrap(fn):", "        return fn", "    return wrap", ""]
        for i in range(nfuncs if nfuncs is not None else r.randint(2, 4)):
            decs = r.choice([[], [], ["deco"], ["deco_arg(2)"], ["deco", "functools.cache"]])
            out += self.func(f"f{i}", decorators=decs) + [""]
        # a small hierarchy: hiding variables, overriding methods, super calls
        out += ["class Base:", f"    kind = {self.const()}", f"    size, unit = {r.choice([1, 2, 5])}, {r.choice(STRS)!r}", "    limit = 2 + 3", ""]
        meths = r.sample(["run", "stop", "reset", "value"], 2 if self.compact else 3)
        for m in meths:
            out += self.func(m, ind=1, method=True) + [""]
        out += ["class Derived(Base):", '    """Doc."""']
        if r.random() < 0.8:
            out.append(f"    kind = {self.const()}")
        if r.random() < 0.7:
            out.append(f"    size, extra = {r.choice([3, 4])}, {self.const()}")
        if r.random() < 0.4:
            out.append(f"    size, unit = {r.choice([3, 4])}, {r.choice(STRS)!r}")
        out.append(f"    other = {r.choice(['1 + 1', '2 * 2', repr('abc'), 'not True'])}")
        out.append("")
        for m in r.sample(meths, r.randint(2, len(meths))):
            sc = r.choice([None, "first", "last", "middle", "first"])
            decs = r.choice([[], [], ["deco"], ["deco_arg(1)"]])
            out += self.func(m, ind=1, method=True, decorators=decs, supercall=sc) + [""]
        out += self.func("fresh", ind=1, method=True) + [""]
        if r.random() < (0.15 if self.compact else 0.3):
            out += ["class Outer:", "    class Inner(Base):", f"        kind = {self.const()}", ""]
            out += self.func("run", ind=2, method=True, supercall=r.choice([None, "first"])) + [""]
        return "\n".join(out) + "\n"


def gen_module(rng: random.Random, nfuncs=None, compact=False) -> str:
    """Return the source of one generated module (always compiles; verified by the caller)."""
    for _ in range(20):
        src = _Gen(rng, compact).module(nfuncs)
        try:
            compile(src, "<minisrc>", "exec")
        except SyntaxError:
            continue
        return src
    raise RuntimeError("minisrc could not generate a compilable module")


# A fixed module in which every operator of pynguin's standard + experimental list fires at least once.
DIRECTED = '''"""Directed module."""
import functools

LIMIT = 10
NAME = "abc"
EMPTY = ""
FLAG = True
RATIO = 2 * 3


def deco(fn):
    return fn


@deco
@functools.cache
def arith(a, b, c=2):
    """Docstring is not mutated."""
    r = a + b - c * a / b // c % a ** b
    r += 1
    r -= a
    r *= 2
    r /= b
    r //= 3
    r %= 7
    r **= 2
    r <<= 1
    r >>= 1
    r &= 3
    r |= 4
    r ^= 5
    u = -a + (+b) + ~c
    if not a:
        u = a & b | c ^ a << 2 >> 1
    return r, u


def logic(a, b, xs):
    if a < b and b > 0 or a <= 1 and b >= 2:
        return a == b
    elif a != b:
        return a is None
    while a is not None and a in xs and b not in xs:
        a -= 1
        if a == 3:
            break
        if a == 5:
            continue
    for i in range(10):
        if i:
            continue
        else:
            break
    for j in xs[1:2:3]:
        b = xs[:a] + xs[b:] + xs[::2]
    return False


def exc(a, s="x"):
    try:
        a = int(s)
    except ValueError:
        a = 0
        print("bad value", s)
    except (KeyError, TypeError) as err:
        raise RuntimeError("wrapped") from err
    except Exception:
        pass
    finally:
        a = 1
    if a:
        raise ValueError(a)
    if s:
        raise RuntimeError
    raise KeyError("k")


def strings(n, w):
    t = f"n={n} w={w:>{n}}"
    u = "mutpy" + "python" + ""
    match n:
        case 0:
            return t
        case 1 | 2:
            return u
        case _:
            return None
    return 1.5, 0, 1, -3


class Base:
    kind = 1
    size, unit = 1, "m"

    def run(self, a, b=2, *args, c=3, **kw):
        return a

    def stop(self):
        return 0

    def reset(self):
        self.x = 0

    def value(self):
        return 1


class Derived(Base):
    kind = 2
    size, extra = 3, 4
    size, unit = 5, "cm"
    other = 1 + 1

    def run(self, a, b=2, *args, c=3, **kw):
        x = a + 1
        return x

    def stop(self):
        super().stop()
        y = 1
        return y

    @deco
    def reset(self):
        self.y = 1
        super().reset()

    def value(self):
        z = 2
        super().value()
        return z

    def fresh(self):
        return True


# AST list fields that contain None next to nodes: kw_defaults of a required keyword-only parameter, keys of a ** unpacking
def kwonly(x, *, a, b=1 + 2, c, d=LIMIT - 1):
    base = {"p": x + 1}
    merged = {**base, "k": a - b, **{"q": c * 2}, "j": d + 1}
    return merged, [*base, x - 1], (lambda *, u, v=x + 2: u + v)(u=1)
'''
