"""Seeded generator of small Python *packages* (SUT module + helper module) with a manifest.

Used by the cluster / type-system checks (C25, C26, C27).  Everything that is emitted is recorded in
the manifest, so a check has ground truth *by construction* and never has to re-derive it from the
code under test:

    m = generate(seed, index, out_dir, tag="c27")
    m["sut"], m["helper"]          module names (unique per (tag, seed, index): the import system caches by name)
    m["classes"]                   every class: module, qualname, bases, visibility, enum/abstract/generic/nested flags
    m["callables"]                 every function / method / constructor / enum: defining module, owner class,
                                   runtime name (mangled where Python mangles), visibility class, flags
                                   (coroutine, asyncgen, generator, lambda, lru_cache, wraps, staticmethod, ...)
    m["inherited"]                 (class, method name, defining class) for inherited-but-not-overridden methods
    m["sut_imports"]               names bound in the SUT that were defined in the helper (re-exports)

`expected_under_test(m, visibility, ignore_methods, ignore_modules)` is the executable reading of
property C27's statement over the manifest; it is three-valued (True / False / None = the statement
does not decide, e.g. nested classes, classmethods, abstract constructors).

Generation is pure (no pynguin import), deterministic from (seed, index, tag-independent), and every
generated class hierarchy is dry-run with `type()` so that the emitted source always imports.
"""

from __future__ import annotations

import random

from pathlib import Path

FEATURES = (
    "chain", "diamond", "builtin_base", "helper_base", "generic", "generic_sub", "enum", "int_enum", "abstract",
    "nested", "nested_base", "underscore_class", "protected_class", "lambda", "protected_lambda", "ann_lambda",
    "lru_cache", "wraps", "coroutine", "asyncgen", "genfunc", "private_func", "protected_func", "reexport",
    "helper_module_import", "static", "classmethod", "property", "class_lambda", "dunder", "mangled",
    "weird_protected", "override", "future_annotations",
)

_DUNDERS = ["__eq__", "__len__", "__repr__", "__str__", "__hash__", "__call__", "__getitem__", "__iter__",
            "__bool__", "__lt__", "__contains__", "__add__", "__enter__"]
_DUNDER_SIG = {
    "__eq__": "(self, other)", "__len__": "(self)", "__repr__": "(self)", "__str__": "(self)", "__hash__": "(self)",
    "__call__": "(self, *args)", "__getitem__": "(self, key)", "__iter__": "(self)", "__bool__": "(self)",
    "__lt__": "(self, other)", "__contains__": "(self, item)", "__add__": "(self, other)", "__enter__": "(self)",
}
_DUNDER_BODY = {
    "__eq__": "return self is other", "__len__": "return 0", "__repr__": "return 'r'", "__str__": "return 's'",
    "__hash__": "return 7", "__call__": "return None", "__getitem__": "return key", "__iter__": "return iter(())",
    "__bool__": "return True", "__lt__": "return False", "__contains__": "return False", "__add__": "return self",
    "__enter__": "return self",
}
_TYPING_NAMES = ["Any", "Callable", "Dict", "Generic", "Iterable", "List", "Optional", "Sequence", "TypeVar", "Union"]
_ENUM_NAMES = ["Enum", "Flag", "IntEnum"]


def _imports_for(body: str) -> list[str]:
    """Only the names the body uses: every imported stdlib *class* costs pynguin's analysis one
    inspect.getsource() = one ast.parse of enum.py / typing.py (70-90 ms each)."""
    import re

    words = set(re.findall(r"[A-Za-z_][A-Za-z0-9_]*", body))
    out = []
    for mod in ("abc", "functools"):
        if mod in words:
            out.append(f"import {mod}")
    en = [n for n in _ENUM_NAMES if n in words]
    if en:
        out.append("from enum import " + ", ".join(en))
    ty = [n for n in _TYPING_NAMES if n in words]
    if ty:
        out.append("from typing import " + ", ".join(ty))
    return out


_BUILTIN_BASES = ["int", "str", "list", "dict", "Exception", "ValueError", "float", "set", "object"]
_BUILTIN_OBJ = {"int": int, "str": str, "list": list, "dict": dict, "Exception": Exception, "ValueError": ValueError,
                "float": float, "set": set, "object": object}


def _vis_of(name: str) -> str:
    if name.startswith("__") and name.endswith("__") and len(name) > 4:
        return "dunder"
    if name.startswith("__"):
        return "private"
    if name.startswith("_"):
        return "protected"
    return "public"


def mangle(cls_name: str, name: str) -> str:
    """Python's name mangling of `name` written inside class `cls_name`."""
    if name.startswith("__") and not name.endswith("__"):
        stripped = cls_name.lstrip("_")
        if stripped:
            return f"_{stripped}{name}"
    return name


class _Cls:
    def __init__(self, name, module, qualname=None):
        self.name = name
        self.module = module
        self.qualname = qualname or name
        self.bases: list[str] = []        # display: "mod.Qual" / "builtins.int" / "enum.Enum"
        self.base_exprs: list[str] = []   # source expressions
        self.kind = "plain"
        self.enum = False
        self.abstract = False
        self.generic = False
        self.nested = False
        self.module_level = True
        self.methods: dict[str, dict] = {}   # runtime name -> callable entry
        self.body: list[str] = []
        self.dry = None
        self.inner: list[_Cls] = []
        self.has_init = False
        self.enum_members = 0
        self._base_objs: list[_Cls] = []
        self.extra_base_exprs: list[str] = []

    def key(self):
        return f"{self.module}.{self.qualname}"


class _Gen:
    def __init__(self, seed: int, index: int, tag: str, force: set[str] | None, size: str):
        self.rng = random.Random(f"modgen:{seed}:{index}")
        s = f"n{-seed}" if seed < 0 else str(seed)
        self.sut = f"mg{tag}_s{s}_i{index}"
        self.helper = self.sut + "_h"
        self.force = set(force or ())
        self.size = size
        self.on: set[str] = set()
        self.classes: list[_Cls] = []
        self.callables: list[dict] = []
        self.counter = 0
        self.sut_refs: dict[str, str] = {}     # class key -> expression usable inside the SUT
        self.helper_refs: dict[str, str] = {}  # class key -> expression usable inside the helper
        self.sut_imports: list[dict] = []
        self.future = False
        self.helper_alias = None
        self.generic_classes: list[_Cls] = []

    # ---- small helpers -----------------------------------------------------------------------
    def feat(self, name: str, p: float) -> bool:
        on = name in self.force or (not self.force_only and self.rng.random() < p)
        if on:
            self.on.add(name)
        return on

    force_only = False

    def uid(self) -> int:
        self.counter += 1
        return self.counter

    def add_callable(self, **kw) -> dict:
        kw.setdefault("flags", [])
        kw.setdefault("owner", None)
        kw.setdefault("binding", None)
        self.callables.append(kw)
        return kw

    # ---- annotations ----------------------------------------------------------------------------
    def type_expr(self, module: str, depth: int = 0) -> str:
        rng = self.rng
        refs = self.sut_refs if module == self.sut else self.helper_refs
        atoms = ["int", "str", "float", "bool", "bytes", "complex", "None", "Any", "object", "list", "dict", "set", "tuple"]
        cls_refs = sorted(refs.values())
        r = rng.random()
        if depth >= 2 or r < 0.45:
            if cls_refs and rng.random() < 0.6:
                return rng.choice(cls_refs)
            return rng.choice(atoms)
        sub = lambda: self.type_expr(module, depth + 1)  # noqa: E731
        nn = lambda: (lambda t: "int" if t == "None" else t)(sub())  # noqa: E731
        forms = [
            lambda: f"list[{sub()}]", lambda: f"set[{nn()}]", lambda: f"dict[{nn()}, {sub()}]",
            lambda: f"tuple[{sub()}, {sub()}]", lambda: f"tuple[{nn()}, ...]", lambda: f"Optional[{nn()}]",
            lambda: f"Union[{nn()}, {nn()}]", lambda: f"Union[{nn()}, {nn()}, None]", lambda: f"List[{sub()}]",
            lambda: f"Dict[str, {sub()}]", lambda: f"Iterable[{nn()}]", lambda: f"Callable[[{nn()}], {sub()}]",
            lambda: f"type[{nn()}]", lambda: f"Sequence[{nn()}]",
        ]
        if self.generic_classes:
            gen_refs = [refs[g.key()] for g in self.generic_classes if g.key() in refs]
            if gen_refs:
                forms.append(lambda: f"{rng.choice(gen_refs)}[{nn()}]")
        return rng.choice(forms)()

    def quote(self, module: str, expr: str) -> str:
        """Without `from __future__ import annotations` everything mentioning a module class is quoted."""
        if module == self.sut and self.future:
            return expr
        return repr(expr)

    def params(self, module: str, with_self: bool, n_max: int = 3) -> str:
        rng = self.rng
        parts = ["self"] if with_self else []
        for i in range(rng.randint(0, n_max)):
            if rng.random() < 0.75:
                parts.append(f"p{i}: {self.quote(module, self.type_expr(module))}")
            else:
                parts.append(f"p{i}")
        if rng.random() < 0.1:
            parts.append("*args")
        if rng.random() < 0.1:
            parts.append("**kwargs")
        return ", ".join(parts)

    def ret(self, module: str) -> str:
        if self.rng.random() < 0.2:
            return ""
        return f" -> {self.quote(module, self.type_expr(module))}"

    # ---- class bodies ---------------------------------------------------------------------------
    def method(self, c: _Cls, written: str, flags=(), deco: str | None = None, kind_def: str = "def", body: str = "return None",
               sig: str | None = None, ind: str = "    "):
        runtime = mangle(c.name, written)
        if runtime in c.methods or written in c.methods:
            return None
        vis = _vis_of(written)
        if deco:
            c.body.append(f"{ind}{deco}")
        with_self = "staticmethod" not in flags
        if sig is None:
            p = self.params(c.module, with_self=False)
            first = "cls" if "classmethod" in flags else "self"
            p = ", ".join(x for x in ([first] if with_self else []) + ([p] if p else []))
            sig = f"({p}){self.ret(c.module)}"
        c.body.append(f"{ind}{kind_def} {written}{sig}:")
        c.body.append(f"{ind}    {body}")
        e = self.add_callable(kind="method", module=c.module, owner=c.qualname, name=runtime, written=written,
                              qualname=f"{c.qualname}.{written}", vis=vis, mangled=(runtime != written), flags=list(flags))
        c.methods[runtime] = e
        return e

    def fill_class(self, c: _Cls, ind: str = "    "):
        rng = self.rng
        u = self.uid
        if c.enum:
            for i in range(rng.randint(1, 3)):
                c.body.append(f"{ind}M{i} = {2 ** i}")
                c.enum_members += 1
            if rng.random() < 0.6:
                self.method(c, f"describe{u()}", ind=ind)
            if rng.random() < 0.3:
                self.method(c, f"_hint{u()}", ind=ind)
            return
        if rng.random() < 0.6 and c.kind not in ("builtin_sub",):
            c.has_init = True
            p = self.params(c.module, with_self=True, n_max=2)
            c.body.append(f"{ind}def __init__({p}):")
            c.body.append(f"{ind}    self.v{u()} = 0")
        for _ in range(rng.randint(1, 3)):
            self.method(c, f"m{u()}", ind=ind)
        for _ in range(rng.randint(0, 2)):
            self.method(c, f"_p{u()}", ind=ind)
        if self.feat("mangled", 0.6):
            for _ in range(rng.randint(1, 2)):
                self.method(c, f"__s{u()}", ind=ind)
        if self.feat("dunder", 0.6):
            for d in rng.sample(_DUNDERS, rng.randint(1, 3)):
                if c.kind == "builtin_sub" and d in ("__hash__", "__eq__", "__len__", "__iter__", "__getitem__", "__contains__"):
                    continue
                self.method(c, d, sig=_DUNDER_SIG[d], body=_DUNDER_BODY[d], ind=ind)
        if self.feat("static", 0.3):
            self.method(c, rng.choice([f"st{u()}", f"_st{u()}"]), flags=["staticmethod"], deco="@staticmethod", ind=ind)
        if self.feat("classmethod", 0.3):
            self.method(c, rng.choice([f"cm{u()}", f"_cm{u()}"]), flags=["classmethod"], deco="@classmethod", ind=ind)
        if self.feat("property", 0.3):
            self.method(c, f"prop{u()}", flags=["property"], deco="@property", sig=f"(self){self.ret(c.module)}", ind=ind)
        if self.feat("coroutine", 0.25):
            self.method(c, rng.choice([f"am{u()}", f"_am{u()}"]), flags=["coroutine"], kind_def="async def", ind=ind)
        if self.feat("asyncgen", 0.15):
            self.method(c, f"ag{u()}", flags=["asyncgen"], kind_def="async def", body="yield 1", ind=ind)
        if self.feat("genfunc", 0.2):
            self.method(c, f"gen{u()}", flags=["generator"], body="yield 1", ind=ind)
        if self.feat("class_lambda", 0.15):
            name = f"lm{u()}"
            c.body.append(f"{ind}{name} = lambda self: 1")
            c.methods[name] = self.add_callable(kind="method", module=c.module, owner=c.qualname, name=name, written=name,
                                                qualname=f"{c.qualname}.<lambda>", vis="public", mangled=False,
                                                flags=["class_lambda", "lambda"])
        if self.feat("weird_protected", 0.08):
            self.method(c, f"_do__work{u()}", flags=["double_underscore_inside"], ind=ind)
        if c.abstract:
            c.body.append(f"{ind}@abc.abstractmethod")
            self.method(c, f"must{u()}", flags=["abstractmethod"], ind=ind)

    def override_some(self, c: _Cls, base_classes: list[_Cls]):
        """Re-define a method of a base class (distinct entry), leave the others inherited."""
        cands = []
        for b in base_classes:
            for e in b.methods.values():
                if e["vis"] in ("public", "protected") and not e["flags"] and e["name"] not in c.methods:
                    cands.append(e)
        if cands and self.feat("override", 0.5):
            e = self.rng.choice(cands)
            self.method(c, e["written"], flags=["override"])

    # ---- hierarchy -------------------------------------------------------------------------------
    def try_bases(self, name: str, bases: list) -> bool:
        try:
            type(name, tuple(bases) or (object,), {})
            return True
        except TypeError:
            return False

    def new_class(self, module: str, name: str, base_items: list, kind="plain") -> _Cls:
        """base_items: list of (_Cls | builtin-name)."""
        c = _Cls(name, module)
        c.kind = kind
        refs = self.sut_refs if module == self.sut else self.helper_refs
        dry_bases = []
        for b in base_items:
            if isinstance(b, _Cls):
                dry_bases.append(b.dry)
            else:
                dry_bases.append(_BUILTIN_OBJ[b])
        if not self.try_bases(name, dry_bases):
            base_items, dry_bases = base_items[:1], dry_bases[:1]
        for b in base_items:
            if isinstance(b, _Cls):
                c.bases.append(b.key())
                c.base_exprs.append(refs[b.key()])
            else:
                c.bases.append(f"builtins.{b}")
                c.base_exprs.append(b)
        c.dry = type(name, tuple(dry_bases) or (object,), {})
        c._base_objs = [b for b in base_items if isinstance(b, _Cls)]
        return c

    def register(self, c: _Cls, sut_ref: str | None, helper_ref: str | None):
        self.classes.append(c)
        if sut_ref:
            self.sut_refs[c.key()] = sut_ref
        if helper_ref:
            self.helper_refs[c.key()] = helper_ref

    def class_source(self, c: _Cls, ind: str = "") -> list[str]:
        hdr = f"{ind}class {c.name}"
        exprs = list(c.base_exprs) + list(c.extra_base_exprs)
        if exprs:
            hdr += "(" + ", ".join(exprs) + ")"
        out = [hdr + ":"]
        body = list(c.body)
        for inner in c.inner:
            body = self.class_source(inner, ind + "    ") + body
        out += body or [f"{ind}    pass"]
        out.append("")
        return out

    def finish_class(self, c: _Cls):
        """constructor / enum entry."""
        if c.enum:
            self.add_callable(kind="enum", module=c.module, owner=c.qualname, name=c.name, written=c.name, qualname=c.qualname,
                              vis=_vis_of(c.name), mangled=False,
                              flags=(["nested_class"] if c.nested else []))
        else:
            fl = []
            if c.abstract:
                fl.append("abstract_class")
            if c.nested:
                fl.append("nested_class")
            if not c.has_init:
                fl.append("implicit_init")
            self.add_callable(kind="constructor", module=c.module, owner=c.qualname, name="__init__", written="__init__",
                              qualname=f"{c.qualname}.__init__", vis=_vis_of(c.name), mangled=False, flags=fl)

    # ---- helper module ----------------------------------------------------------------------------
    def build_helper(self) -> str:
        rng, h = self.rng, self.helper
        src = ["HT = TypeVar('HT')", ""]
        base = self.new_class(h, "HBase0", [])
        self.register(base, None, "HBase0")
        self.fill_class(base)
        self.finish_class(base)
        src += self.class_source(base)
        mid = self.new_class(h, "HMid0", [base])
        self.register(mid, None, "HMid0")
        self.fill_class(mid)
        self.override_some(mid, [base])
        self.finish_class(mid)
        src += self.class_source(mid)
        if rng.random() < 0.5:
            left = self.new_class(h, "HLeft0", [base])
            right = self.new_class(h, "HRight0", [base])
            for c in (left, right):
                self.register(c, None, c.name)
                self.fill_class(c)
                self.finish_class(c)
                src += self.class_source(c)
            dia = self.new_class(h, "HDia0", [left, right])
            self.register(dia, None, "HDia0")
            self.fill_class(dia)
            self.finish_class(dia)
            src += self.class_source(dia)
        box = self.new_class(h, "HBox0", [], kind="generic")
        box.generic = True
        box.extra_base_exprs = ["Generic[HT]"]
        box.bases.append("typing.Generic")
        self.register(box, None, "HBox0")
        self.generic_classes.append(box)
        self.fill_class(box)
        self.finish_class(box)
        src += self.class_source(box)
        col = self.new_class(h, "HColor0", [], kind="enum")
        col.enum = True
        col.extra_base_exprs = ["Enum"]
        col.bases.append("enum.Enum")
        self.register(col, None, "HColor0")
        self.fill_class(col)
        self.finish_class(col)
        src += self.class_source(col)
        if rng.random() < 0.5:
            err = self.new_class(h, "HErr0", ["ValueError"], kind="builtin_sub")
            self.register(err, None, "HErr0")
            self.fill_class(err)
            self.finish_class(err)
            src += self.class_source(err)
        # functions
        src += ["def h_deco(fn):", "    @functools.wraps(fn)", "    def wrapper(*a, **k):", "        return fn(*a, **k)", "    return wrapper", ""]
        self.add_callable(kind="function", module=h, name="h_deco", written="h_deco", qualname="h_deco", vis="public", mangled=False,
                          binding="h_deco")
        for i in range(rng.randint(1, 3)):
            n = f"h_fn{i}"
            src += [f"def {n}({self.params(h, False)}){self.ret(h)}:", "    return None", ""]
            self.add_callable(kind="function", module=h, name=n, written=n, qualname=n, vis="public", mangled=False, binding=n)
        src += ["def _h_prot(x: int = 0) -> int:", "    return x", ""]
        self.add_callable(kind="function", module=h, name="_h_prot", written="_h_prot", qualname="_h_prot", vis="protected", mangled=False,
                          binding="_h_prot")
        src += ["h_lam = lambda v: v", ""]
        self.add_callable(kind="function", module=h, name="h_lam", written="h_lam", qualname="<lambda>", vis="public", mangled=False,
                          binding="h_lam", flags=["lambda"])
        src += ["@functools.lru_cache(maxsize=None)", f"def h_cached(x: int){self.ret(h)}:", "    return None", ""]
        self.add_callable(kind="function", module=h, name="h_cached", written="h_cached", qualname="h_cached", vis="public", mangled=False,
                          binding="h_cached", flags=["lru_cache"])
        src += ["async def h_coro():", "    return 1", ""]
        self.add_callable(kind="function", module=h, name="h_coro", written="h_coro", qualname="h_coro", vis="public", mangled=False,
                          binding="h_coro", flags=["coroutine"])
        body = "\n".join(src) + "\n"
        return "\n".join(_imports_for(body)) + "\n\n" + body

    # ---- SUT module -------------------------------------------------------------------------------
    def build_sut(self) -> str:
        rng, s, h = self.rng, self.sut, self.helper
        self.future = self.feat("future_annotations", 0.5)
        head = []
        if self.future:
            head.append("from __future__ import annotations")
        head_imports_at = len(head)
        helper_classes = [c for c in self.classes if c.module == h]
        # how the helper is visible from the SUT
        style_module = self.feat("helper_module_import", 0.4)
        self.feat("reexport", 1.0)
        if style_module:
            self.helper_alias = rng.choice([h, "hp"])
            head.append(f"import {h}" if self.helper_alias == h else f"import {h} as hp")
        imported_names = []
        for c in helper_classes:
            if (not style_module) or rng.random() < 0.5:
                imported_names.append((c.name, c.name))
                self.sut_refs[c.key()] = c.name
                self.sut_imports.append({"binding": c.name, "module": h, "qualname": c.qualname, "kind": "class"})
            else:
                self.sut_refs[c.key()] = f"{self.helper_alias}.{c.name}"
        fn_imports = []
        for e in [e for e in self.callables if e["module"] == h and e["kind"] == "function"]:
            if rng.random() < 0.6 or e["name"] in ("h_deco",):
                alias = e["binding"] if rng.random() < 0.6 or e["name"] == "h_deco" else f"re_{e['binding'].lstrip('_')}"
                fn_imports.append((e["binding"], alias))
                self.sut_imports.append({"binding": alias, "module": h, "qualname": e["qualname"], "kind": "function",
                                         "helper_binding": e["binding"]})
        names = [a if a == b else f"{a} as {b}" for a, b in imported_names + fn_imports]
        head.append(f"from {h} import " + ", ".join(names))
        head += ["", "T = TypeVar('T')", ""]

        src: list[str] = []
        sut_classes: list[_Cls] = []

        def emit(c: _Cls, ref=None):
            self.register(c, ref or c.name, None)
            sut_classes.append(c)

        n_extra = {"small": (1, 3), "medium": (2, 5), "large": (4, 8)}[self.size]
        # chain
        root = self.new_class(s, f"Alpha{self.uid()}", [])
        emit(root)
        self.fill_class(root)
        self.finish_class(root)
        src += self.class_source(root)
        plain: list[_Cls] = [root]
        if self.feat("chain", 0.8):
            prev = root
            for _ in range(rng.randint(1, 3)):
                c = self.new_class(s, f"Chain{self.uid()}", [prev])
                emit(c)
                self.fill_class(c)
                self.override_some(c, [prev])
                self.finish_class(c)
                src += self.class_source(c)
                plain.append(c)
                prev = c
        if self.feat("diamond", 0.6):
            top = rng.choice(plain)
            l = self.new_class(s, f"Left{self.uid()}", [top])
            r = self.new_class(s, f"Right{self.uid()}", [top])
            for c in (l, r):
                emit(c)
                self.fill_class(c)
                self.finish_class(c)
                src += self.class_source(c)
            d = self.new_class(s, f"Dia{self.uid()}", [l, r])
            emit(d)
            self.fill_class(d)
            self.override_some(d, [l, r, top])
            self.finish_class(d)
            src += self.class_source(d)
            plain += [l, r, d]
        if self.feat("helper_base", 0.7):
            hb = rng.choice([c for c in helper_classes if not c.enum and not c.generic])
            others = [rng.choice(plain)] if rng.random() < 0.3 else []
            c = self.new_class(s, f"FromHelper{self.uid()}", [*others, hb])
            emit(c)
            self.fill_class(c)
            self.override_some(c, [hb])
            self.finish_class(c)
            src += self.class_source(c)
            plain.append(c)
        if self.feat("builtin_base", 0.5):
            b = rng.choice(_BUILTIN_BASES)
            c = self.new_class(s, f"Sub{b.capitalize()}{self.uid()}", [b], kind="builtin_sub" if b != "object" else "plain")
            emit(c)
            self.fill_class(c)
            self.finish_class(c)
            src += self.class_source(c)
        if self.feat("underscore_class", 0.35):
            c = self.new_class(s, f"Tree_Node{self.uid()}", [rng.choice(plain)] if rng.random() < 0.5 else [])
            emit(c)
            self.on.add("mangled")
            self.method(c, f"__hid{self.uid()}")
            self.fill_class(c)
            self.finish_class(c)
            src += self.class_source(c)
        if self.feat("protected_class", 0.35):
            c = self.new_class(s, f"_Hidden{self.uid()}", [rng.choice(plain)] if rng.random() < 0.5 else [])
            emit(c)
            self.fill_class(c)
            self.finish_class(c)
            src += self.class_source(c)
        if self.feat("generic", 0.5):
            g = self.new_class(s, f"Box{self.uid()}", [], kind="generic")
            g.generic = True
            g.extra_base_exprs = ["Generic[T]"]
            g.bases.append("typing.Generic")
            emit(g)
            self.generic_classes.append(g)
            self.fill_class(g)
            self.finish_class(g)
            src += self.class_source(g)
            if self.feat("generic_sub", 0.6):
                c = self.new_class(s, f"IntBox{self.uid()}", [g])
                c.base_exprs = [f"{g.name}[int]"]
                emit(c)
                self.fill_class(c)
                self.finish_class(c)
                src += self.class_source(c)
        if self.feat("abstract", 0.4):
            a = self.new_class(s, f"Abs{self.uid()}", [])
            a.abstract = True
            a.extra_base_exprs = ["abc.ABC"]
            a.bases.append("abc.ABC")
            emit(a)
            self.fill_class(a)
            self.finish_class(a)
            src += self.class_source(a)
            must = [e for e in a.methods.values() if "abstractmethod" in e["flags"]][0]
            c = self.new_class(s, f"Impl{self.uid()}", [a])
            emit(c)
            self.method(c, must["written"], flags=["override"])
            self.fill_class(c)
            self.finish_class(c)
            src += self.class_source(c)
        if self.feat("enum", 0.6):
            e = self.new_class(s, rng.choice([f"Color{self.uid()}", f"_Mode{self.uid()}"]), [], kind="enum")
            e.enum = True
            e.extra_base_exprs = [rng.choice(["Enum", "Flag", "str, Enum"])]
            e.bases.append("enum.Enum")
            emit(e)
            self.fill_class(e)
            self.finish_class(e)
            src += self.class_source(e)
        if self.feat("int_enum", 0.3):
            e = self.new_class(s, f"Level{self.uid()}", [], kind="enum")
            e.enum = True
            e.extra_base_exprs = ["IntEnum"]
            e.bases.append("enum.IntEnum")
            emit(e)
            self.fill_class(e)
            self.finish_class(e)
            src += self.class_source(e)
        if self.feat("nested", 0.4):
            o = self.new_class(s, f"Outer{self.uid()}", [])
            emit(o)
            inner = _Cls(f"Inner{self.uid()}", s, None)
            inner.qualname = f"{o.name}.{inner.name}"
            inner.nested = True
            inner.module_level = False
            inner.dry = type(inner.name, (object,), {})
            inner._base_objs = []
            self.classes.append(inner)
            self.sut_refs[inner.key()] = inner.qualname
            self.fill_class(inner, ind="        ")
            self.finish_class(inner)
            o.inner.append(inner)
            self.fill_class(o)
            self.finish_class(o)
            src += self.class_source(o)
            if self.feat("nested_base", 0.5):
                c = self.new_class(s, f"FromInner{self.uid()}", [inner])
                emit(c)
                self.fill_class(c)
                self.finish_class(c)
                src += self.class_source(c)
        for _ in range(rng.randint(*n_extra)):
            k = rng.randint(0, 2)
            cands = [c for c in plain]
            bases = rng.sample(cands, min(k, len(cands)))
            c = self.new_class(s, f"Extra{self.uid()}", bases)
            emit(c)
            self.fill_class(c)
            self.override_some(c, c._base_objs)
            self.finish_class(c)
            src += self.class_source(c)
            plain.append(c)

        # ---- functions
        def fn(name, flags=(), deco=None, kind_def="def", body="return None"):
            if deco:
                src.append(deco)
            src.extend([f"{kind_def} {name}({self.params(s, False)}){self.ret(s)}:", f"    {body}", ""])
            self.add_callable(kind="function", module=s, name=name, written=name, qualname=name, vis=_vis_of(name), mangled=False,
                              binding=name, flags=list(flags))

        for _ in range(rng.randint(2, 4)):
            fn(f"fn{self.uid()}")
        if self.feat("protected_func", 0.7):
            fn(f"_prot{self.uid()}")
        if self.feat("private_func", 0.5):
            fn(f"__priv{self.uid()}")
        if self.feat("lru_cache", 0.5):
            fn(rng.choice([f"cached{self.uid()}", f"_cached{self.uid()}"]), flags=["lru_cache"],
               deco=rng.choice(["@functools.lru_cache(maxsize=None)", "@functools.cache", "@functools.lru_cache"]))
        if self.feat("wraps", 0.3):
            fn(f"wrapped{self.uid()}", flags=["wraps"], deco="@h_deco")
        if self.feat("coroutine", 0.4):
            fn(rng.choice([f"coro{self.uid()}", f"_coro{self.uid()}"]), flags=["coroutine"], kind_def="async def")
        if self.feat("asyncgen", 0.2):
            fn(f"agen{self.uid()}", flags=["asyncgen"], kind_def="async def", body="yield 1")
        if self.feat("genfunc", 0.3):
            fn(f"gen{self.uid()}", flags=["generator"], body="yield 1")
        if self.feat("lambda", 0.6):
            n = f"lam{self.uid()}"
            src.extend([f"{n} = lambda x, y=0: x", ""])
            self.add_callable(kind="function", module=s, name=n, written=n, qualname="<lambda>", vis="public", mangled=False, binding=n,
                              flags=["lambda"])
        if self.feat("protected_lambda", 0.4):
            n = rng.choice([f"_plam{self.uid()}", f"__pplam{self.uid()}"])
            src.extend([f"{n} = lambda x: x", ""])
            self.add_callable(kind="function", module=s, name=n, written=n, qualname="<lambda>", vis=_vis_of(n), mangled=False, binding=n,
                              flags=["lambda"])
        if self.feat("ann_lambda", 0.2):
            n = f"alam{self.uid()}"
            src.extend([f"{n}: Callable[[int], int] = lambda x: x", ""])
            self.add_callable(kind="function", module=s, name=n, written=n, qualname="<lambda>", vis="public", mangled=False, binding=n,
                              flags=["lambda", "lambda_annassign"])
        body = "\n".join(head[head_imports_at:] + src) + "\n"
        return "\n".join(head[:head_imports_at] + _imports_for(body)) + "\n" + body

    # ---- inherited-but-not-overridden ---------------------------------------------------------------
    def inherited(self) -> list[dict]:
        by_dry = {id(c.dry): c for c in self.classes if c.dry is not None}
        out = []
        for c in self.classes:
            if c.dry is None:
                continue
            seen = set(c.methods)
            for d in c.dry.__mro__[1:]:
                b = by_dry.get(id(d))
                if b is None:
                    continue
                for name, e in b.methods.items():
                    if name not in seen:
                        seen.add(name)
                        out.append({"class": c.qualname, "class_module": c.module, "name": name, "defined_in": b.qualname,
                                    "defined_module": b.module})
        return out


def generate(seed: int, index: int, out_dir, tag: str = "", force=None, force_only: bool = False, size: str = "medium") -> dict:
    """Write <sut>.py and <helper>.py into out_dir and return the manifest (JSON-able dict)."""
    g = _Gen(seed, index, tag, set(force) if force else None, size)
    g.force_only = force_only
    helper_src = g.build_helper()
    sut_src = g.build_sut()
    out = Path(out_dir)
    out.mkdir(parents=True, exist_ok=True)
    (out / f"{g.helper}.py").write_text(helper_src)
    (out / f"{g.sut}.py").write_text(sut_src)
    classes = []
    for c in g.classes:
        classes.append({
            "name": c.name, "qualname": c.qualname, "module": c.module, "bases": list(c.bases), "vis": _vis_of(c.name),
            "enum": c.enum, "abstract": c.abstract, "generic": c.generic, "nested": c.nested, "module_level": c.module_level,
            "has_init": c.has_init, "kind": c.kind, "name_has_underscore": "_" in c.name.strip("_"),
            "enum_members": c.enum_members,
        })
    return {
        "seed": seed, "index": index, "tag": tag, "dir": str(out), "sut": g.sut, "helper": g.helper,
        "gen": {"seed": seed, "index": index, "tag": tag, "force": sorted(force) if force else None, "force_only": force_only, "size": size},
        "sut_file": str(out / f"{g.sut}.py"), "helper_file": str(out / f"{g.helper}.py"),
        "features": sorted(g.on), "classes": classes, "callables": g.callables, "inherited": g.inherited(),
        "sut_imports": g.sut_imports, "future_annotations": g.future,
    }


def regenerate(gen: dict, out_dir) -> dict:
    """Re-create a package from the `gen` record of a manifest (used by replays)."""
    return generate(gen["seed"], gen["index"], out_dir, tag=gen.get("tag", ""), force=gen.get("force"), force_only=gen.get("force_only", False),
                    size=gen.get("size", "medium"))


# ------------------------------------------------------------------------------------------------------
# Executable reading of C27's statement over the manifest
# ------------------------------------------------------------------------------------------------------
_ELIGIBLE = {
    "PUBLIC": {"public", "dunder"},
    "PROTECTED": {"public", "dunder", "protected"},
    "ALL": {"public", "dunder", "protected", "private"},
}


def entry_key(e: dict) -> tuple:
    if e["kind"] == "function":
        return ("function", e["module"], e["binding"])
    if e["kind"] in ("constructor", "enum"):
        return (e["kind"], e["module"], e["owner"])
    return ("method", e["module"], e["owner"], e["name"])


def ignore_names(e: dict) -> list[str]:
    """The dotted names a user would put into ignore_methods for this entry."""
    if e["kind"] == "function":
        return [f"{e['module']}.{e['binding']}"]
    if e["kind"] == "method":
        names = [f"{e['module']}.{e['owner']}.{e['written']}"]
        if e["mangled"]:
            names.append(f"{e['module']}.{e['owner']}.{e['name']}")
        return names
    return []


def expected_under_test(m: dict, visibility: str, ignore_methods=(), ignore_modules=()) -> dict:
    """key -> (expect, reason). expect: True = must be under test, False = must not, None = undecided."""
    cls_by_q = {(c["module"], c["qualname"]): c for c in m["classes"]}
    ign = set(ignore_methods)
    res = {}
    for e in m["callables"]:
        k = entry_key(e)
        fl = set(e["flags"])
        if e["module"] != m["sut"]:
            res[k] = (False, "foreign")
            continue
        if m["sut"] in ignore_modules:
            res[k] = (False, "module-ignored")
            continue
        owner = cls_by_q.get((e["module"], e["owner"])) if e["owner"] else None
        if e["kind"] == "function":
            if fl & {"coroutine", "asyncgen"}:
                res[k] = (False, "coroutine")
            elif fl & {"lambda_annassign"}:
                res[k] = (None, "lambda-annotated-assignment")
            elif ign & set(ignore_names(e)):
                res[k] = (False, "ignored")
            elif e["vis"] in _ELIGIBLE[visibility]:
                res[k] = (True, "eligible")
            else:
                res[k] = (False, "visibility")
            continue
        if owner is None:
            res[k] = (None, "unknown-owner")
            continue
        if owner["nested"]:
            res[k] = (None, "nested-class")
            continue
        if e["kind"] == "enum":
            res[k] = (True, "eligible") if owner["vis"] == "public" else (None, "non-public-class")
            continue
        if e["kind"] == "constructor":
            if owner["abstract"]:
                res[k] = (None, "abstract-class")
            elif owner["vis"] != "public":
                res[k] = (None, "non-public-class")
            else:
                res[k] = (True, "eligible")
            continue
        # methods
        if fl & {"coroutine", "asyncgen"}:
            res[k] = (False, "coroutine")
        elif fl & {"classmethod", "property", "class_lambda", "abstractmethod"}:
            res[k] = (None, sorted(fl & {"classmethod", "property", "class_lambda", "abstractmethod"})[0])
        elif ign & set(ignore_names(e)):
            res[k] = (False, "ignored")
        elif e["vis"] not in _ELIGIBLE[visibility]:
            res[k] = (False, "visibility")
        elif owner["vis"] != "public":
            res[k] = (None, "non-public-class")
        else:
            res[k] = (True, "eligible")
    return res
