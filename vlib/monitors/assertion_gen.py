"""Assertion-generation monitor (C21).

Installed by ``vlib.pyndriver`` inside the driver child.  Everything the oracle needs is recorded as *raw
observations*; the verdict is computed on the parent side (checks/c21_assertion_minimization.py).

Wrapped (each wrapper counts its calls, see the final ``monitor-calls`` event):

* ``MutationAnalysisAssertionGenerator._execute_test_case_on_mutant`` - one call per created mutant; the lazily produced
  per-test results are materialised (the caller consumes them completely before it asks for the next mutant, so the
  laziness is not observable) and an independent record ``None`` (invalid module) / checked is kept.
* ``MutationAnalysisAssertionGenerator.__remove_non_relevant_assertions`` (the static method that receives
  ``(test_cases, tests_mutants_results, mutation_summary)``): snapshot of every statement's assertion list (object ids +
  repr) *before* the call, the complete per-test x per-mutant verification traces (failed / errored positions, timeout,
  raised-exception positions), the summary it was given, and the surviving assertion objects *after* the call mapped back
  to their original ``(statement, index)`` by identity.  "Kills of the full set" are therefore known independently of what
  the generator kept.
* ``MutationAnalysisAssertionGenerator.__report_mutation_summary``: the summary, ``num_created``, the metrics object the
  real code derives from it, and every value the call passes to ``stat.track_output_variable`` (MutationScore, ...).
* ``pynguin.generator._generate_assertions``: after it returns, every test case of the suite is cloned and re-executed on
  the *unmutated* module by a fresh ``TestCaseExecutor`` (fresh ModuleProvider, no mutated alias) with a fresh
  ``RemoteAssertionVerificationObserver``; failed / errored assertion positions are recorded (event ``reexec``).

VERIF_BREAK=<name> applies a seeded break from ``BREAKS`` before the wrappers are installed (self-test only).
"""

from __future__ import annotations

import os

MANGLE = "_MutationAnalysisAssertionGenerator__"


# --------------------------------------------------------------------------------------------------------------------
# seeded breaks (self-test)
# --------------------------------------------------------------------------------------------------------------------
def _break_greedy_drops_needed():
    """Greedy selection that 'prunes' one assertion too many: the highest selected key is dropped whenever >= 2 are kept."""
    import pynguin.assertion.assertiongenerator as ag

    orig = ag._select_minimal_assertions

    def broken(kill_map):
        keep = set(orig(kill_map))
        if len(keep) >= 2:
            keep.discard(max(keep))
        return keep

    ag._select_minimal_assertions = broken


def _break_index_shift():
    """The removal loop of the minimiser uses positions shifted by one inside a statement (keeps idx+1 instead of idx)."""
    import pynguin.assertion.assertiongenerator as ag

    orig = ag._select_minimal_assertions

    def broken(kill_map):
        keep = orig(kill_map)
        return {(s, a + 1) for (s, a) in keep}

    ag._select_minimal_assertions = broken


def _break_timeouts_count_as_kills():
    import pynguin.assertion.assertiongenerator as ag

    def get_killed(self):
        return [info for info in self.mutant_information if info.killed_by or info.timed_out_by]

    ag._MutationSummary.get_killed = get_killed


def _break_score_counts_timeouts_in_divisor():
    import pynguin.assertion.assertiongenerator as ag

    def get_score(self):
        if self.num_created_mutants == 0:
            return 1.0
        return self.num_killed_mutants / self.num_created_mutants

    ag._MutationMetrics.get_score = get_score


def _break_unchecked_counted():
    """Invalid (None) mutants get a column of 'survivor' results: counted as checked mutants in the score."""
    import pynguin.assertion.assertiongenerator as ag

    cls = ag.MutationAnalysisAssertionGenerator
    orig = cls._execute_test_case_on_mutant

    def broken(self, test_cases, mutated_module, idx, mutant_count):
        if mutated_module is None:
            from pynguin.testcase.execution_result import ExecutionResult

            return [ExecutionResult() for _ in test_cases]
        return orig(self, test_cases, mutated_module, idx, mutant_count)

    cls._execute_test_case_on_mutant = broken


def _break_filtering_skipped():
    """The filtering pass no longer removes non-holding assertions; additionally one wrong assertion per test is planted
    (a flaky assertion the filter would have removed)."""
    import pynguin.assertion.assertion as ass
    import pynguin.assertion.assertiongenerator as ag

    cls = ag.AssertionGenerator
    orig_for = cls._add_assertions_for

    def add_for(self, test_case, result):
        orig_for(self, test_case, result)
        for st in test_case.statements():
            if st.bound_variable is not None and st.assertions and not st.has_only_exception_assertion():
                st.assertions.append(ass.ObjectAssertion(st.bound_variable, "planted-by-seeded-break"))
                break

    cls._add_assertions_for = add_for
    setattr(cls, "_AssertionGenerator__remove_non_holding_assertions", staticmethod(lambda test, result: None))
    # keep the planted assertion through the mutation-analysis filter: it is violated on every mutant too


def _fix_expected_exception_is_not_a_kill():
    """Proposed repair (finding outside the literal statement of C21): an exception raised at a statement that carries only an
    exception assertion is the expected behaviour of the test and does not kill the mutant."""
    import pynguin.assertion.assertiongenerator as ag

    cls = ag.MutationAnalysisAssertionGenerator
    holder = {}
    orig_handle = cls._handle_add_assertions

    def handle(self, test_cases):
        holder["tests"] = test_cases
        return orig_handle(self, test_cases)

    def compute(number_of_mutants, tests_mutants_results):
        tests = holder["tests"]
        info = [ag._MutantInfo(i) for i in range(number_of_mutants)]
        for test_num, row in enumerate(tests_mutants_results):
            stmts = tests[test_num].statements()
            for inf, result in zip(info, row, strict=True):
                if result is None or inf.timed_out_by:
                    continue
                if result.timeout:
                    inf.timed_out_by.append(test_num)
                elif (len(result.assertion_verification_trace.error) > 0 or len(result.assertion_verification_trace.failed) > 0
                      or any(not (i < len(stmts) and stmts[i].has_only_exception_assertion()) for i in result.exceptions)):
                    inf.killed_by.append(test_num)
        return ag._MutationSummary(info)

    cls._handle_add_assertions = handle
    setattr(cls, MANGLE + "compute_mutation_summary", staticmethod(compute))


def _break_filter_ignores_errors_when_failed():
    """The filtering pass deletes the errored assertions of a statement only when no assertion of that statement failed."""
    import pynguin.assertion.assertiongenerator as ag

    from pynguin.utils.orderedset import OrderedSet

    def remove_non_holding(test, result):
        for idx, statement in enumerate(test.statements()):
            pos_to_key = dict(enumerate(statement.assertions))
            to_delete = OrderedSet()
            if idx in result.assertion_verification_trace.failed:
                to_delete.update(result.assertion_verification_trace.failed[idx])
            elif idx in result.assertion_verification_trace.error:
                to_delete.update(result.assertion_verification_trace.error[idx])
            for pos in sorted(to_delete, reverse=True):
                statement.assertions.remove(pos_to_key[pos])

    setattr(ag.AssertionGenerator, "_AssertionGenerator__remove_non_holding_assertions", staticmethod(remove_non_holding))


def _break_filter_ignores_errors():
    """The filtering pass only deletes failed assertions, errored ones stay."""
    import pynguin.assertion.assertiongenerator as ag

    def remove_non_holding(test, result):
        for idx, statement in enumerate(test.statements()):
            pos_to_key = dict(enumerate(statement.assertions))
            for pos in sorted(result.assertion_verification_trace.failed.get(idx, ()), reverse=True):
                statement.assertions.remove(pos_to_key[pos])

    setattr(ag.AssertionGenerator, "_AssertionGenerator__remove_non_holding_assertions", staticmethod(remove_non_holding))


BREAKS = {
    "filter-ignores-errors-when-failed": _break_filter_ignores_errors_when_failed,
    "filter-ignores-errors": _break_filter_ignores_errors,
    "PROPOSED_FIX_expected-exception-is-not-a-kill": _fix_expected_exception_is_not_a_kill,
    "greedy-drops-needed": _break_greedy_drops_needed,
    "index-shift": _break_index_shift,
    "timeouts-count-as-kills": _break_timeouts_count_as_kills,
    "score-divisor-includes-timeouts": _break_score_counts_timeouts_in_divisor,
    "unchecked-counted": _break_unchecked_counted,
    "filtering-skipped": _break_filtering_skipped,
}


# --------------------------------------------------------------------------------------------------------------------
def _vt(trace):
    """AssertionVerificationTrace -> JSON."""
    return (
        {str(p): sorted(v) for p, v in trace.failed.items() if len(v)},
        {str(p): sorted(v) for p, v in trace.error.items() if len(v)},
    )


def _result_record(res):
    if res is None:
        return None
    failed, error = _vt(res.assertion_verification_trace)
    return {
        "timeout": bool(res.timeout),
        "failed": failed,
        "error": error,
        "exc": {str(p): type(e).__name__ for p, e in res.exceptions.items()},
    }


def _ass_record(a):
    import pynguin.assertion.assertion as ass

    rec = {"cls": type(a).__name__, "repr": repr(a)[:160]}
    if isinstance(a, ass.ExceptionAssertion):
        rec["exception"] = a.exception_type_name
    elif isinstance(a, ass.ReferenceAssertion):
        rec["source"] = a.source
    return rec


def _test_record(test_case):
    import libcst as cst

    stmts = []
    for st in test_case.statements():
        try:
            code = cst.Module(body=[st.node]).code.strip()
        except Exception as e:  # noqa: BLE001
            code = f"<unrenderable {type(e).__name__}>"
        stmts.append({"code": code[:200], "bound": st.bound_variable, "assertions": [_ass_record(a) for a in st.assertions],
                      "only_exception": bool(st.has_only_exception_assertion())})
    return stmts


def recorded_remove(orig_remove, test_cases, tests_mutants_results, mutation_summary, events):
    """Call the real ``__remove_non_relevant_assertions`` and append one ``mutation-analysis`` event (raw observations)."""
    import pynguin.configuration as config

    before_ids = [[[id(a) for a in st.assertions] for st in t.statements()] for t in test_cases]
    before_objs = [[list(st.assertions) for st in t.statements()] for t in test_cases]  # keep alive: ids stay unique
    ev = {
        "ev": "mutation-analysis",
        "minimization": bool(config.configuration.test_case_output.assertion_minimization),
        "tests": [_test_record(t) for t in test_cases],
        "results": [[_result_record(r) for r in row] for row in tests_mutants_results],
        "summary": [{"mut": m.mut_num, "killed_by": list(m.killed_by), "timed_out_by": list(m.timed_out_by)}
                    for m in mutation_summary.mutant_information],
    }
    try:
        return orig_remove(test_cases, tests_mutants_results, mutation_summary)
    except BaseException as e:  # noqa: BLE001
        ev["raised"] = f"{type(e).__name__}: {e}"
        raise
    finally:
        kept, foreign, sizes_after = [], 0, []
        for ti, t in enumerate(test_cases):
            per_test = []
            stmts = t.statements()
            sizes_after.append(len(stmts))
            for si, st in enumerate(stmts):
                ids = before_ids[ti][si] if si < len(before_ids[ti]) else []
                used: set = set()
                row = []
                for a in st.assertions:
                    pos = next((k for k, i in enumerate(ids) if i == id(a) and k not in used), None)
                    if pos is None:
                        foreign += 1
                    else:
                        used.add(pos)
                        row.append(pos)
                per_test.append(row)
            kept.append(per_test)
        ev["kept"] = kept
        ev["foreign_assertions_after"] = foreign
        ev["statements_after"] = sizes_after
        del before_objs
        events.append(ev)


def install(events, spec):
    import pynguin.assertion.assertiongenerator as ag
    import pynguin.assertion.assertiontraceobserver as ato
    import pynguin.configuration as config
    import pynguin.generator as gen
    import pynguin.utils.statistics.stats as stat

    from pynguin.testcase.execution import TestCaseExecutor

    for name in filter(None, os.environ.get("VERIF_BREAK", "").split(",")):
        BREAKS[name]()
        events.append({"ev": "seeded-break", "name": name})

    calls = {"execute_on_mutant": 0, "remove_non_relevant": 0, "report_summary": 0, "generate_assertions": 0, "reexecuted_tests": 0}
    mutants: list = []  # independent per-mutant record, in creation order
    cls = ag.MutationAnalysisAssertionGenerator

    # ---- one call per created mutant ----------------------------------------------------------
    orig_exec = cls._execute_test_case_on_mutant

    def execute_on_mutant(self, test_cases, mutated_module, idx, mutant_count):
        calls["execute_on_mutant"] += 1
        ret = orig_exec(self, test_cases, mutated_module, idx, mutant_count)
        # "checked" is decided by what the mutation controller delivered, not by what the method returned
        rec = {"idx": idx, "checked": mutated_module is not None, "returned_none": ret is None}
        if ret is not None:
            ret = list(ret)
            rec.update({"n_results": len(ret), "n_tests": len(test_cases),
                        "timeout": any(r is not None and r.timeout for r in ret),
                        "aborted": sum(1 for r in ret if r is None)})
        mutants.append(rec)
        return ret

    cls._execute_test_case_on_mutant = execute_on_mutant

    # ---- the method that receives the per-mutant results ----------------------------------------
    orig_remove = getattr(cls, MANGLE + "remove_non_relevant_assertions")

    def remove_non_relevant(test_cases, tests_mutants_results, mutation_summary):
        calls["remove_non_relevant"] += 1
        return recorded_remove(orig_remove, test_cases, tests_mutants_results, mutation_summary, events)

    setattr(cls, MANGLE + "remove_non_relevant_assertions", staticmethod(remove_non_relevant))

    # ---- score reporting ---------------------------------------------------------------------------
    orig_report = getattr(cls, MANGLE + "report_mutation_summary")
    orig_track = stat.track_output_variable
    tap: dict = {"on": False, "seen": {}}

    def track_output_variable(runtime_variable, value):
        if tap["on"]:
            tap["seen"][getattr(runtime_variable, "name", str(runtime_variable))] = value
        return orig_track(runtime_variable, value)

    stat.track_output_variable = track_output_variable

    def report_summary(self, mutation_summary, num_created):
        calls["report_summary"] += 1
        tap["on"], tap["seen"] = True, {}
        try:
            return orig_report(self, mutation_summary, num_created)
        finally:
            tap["on"] = False
            ev = {"ev": "mutation-score", "num_created_arg": num_created, "tracked": dict(tap["seen"]),
                  "summary": [{"mut": m.mut_num, "killed_by": list(m.killed_by), "timed_out_by": list(m.timed_out_by)}
                              for m in mutation_summary.mutant_information],
                  "mutants": list(mutants)}
            try:
                metrics = mutation_summary.get_metrics()
                ev["metrics"] = {"created": metrics.num_created_mutants, "killed": metrics.num_killed_mutants,
                                 "timeout": metrics.num_timeout_mutants}
                ev["score"] = metrics.get_score()
            except BaseException as e:  # noqa: BLE001
                ev["score_raised"] = f"{type(e).__name__}: {e}"
            events.append(ev)

    setattr(cls, MANGLE + "report_mutation_summary", report_summary)

    # ---- the filtering pass: what did the filtering execution report per statement? -------------------
    FMANGLE = "_AssertionGenerator__remove_non_holding_assertions"
    orig_filter = getattr(ag.AssertionGenerator, FMANGLE)
    filt = {"calls": 0, "stmt:failed+error": 0, "stmt:failed-only": 0, "stmt:error-only": 0, "stmt:all-hold": 0,
            "test:failed-only-and-error-only-statements": 0, "test:mixed-statement-plus-others": 0, "removed": 0, "timeouts": 0,
            "stmt:failed+error+holding": 0}

    def remove_non_holding(test, result):
        calls["remove_non_holding"] = calls.get("remove_non_holding", 0) + 1
        filt["calls"] += 1
        vt = result.assertion_verification_trace
        kinds = set()
        if result.timeout:
            filt["timeouts"] += 1
        before = sum(len(st.assertions) for st in test.statements())
        for idx, st in enumerate(test.statements()):
            if not st.assertions:
                continue
            f = set(vt.failed.get(idx, ())) if idx in vt.failed else set()
            e = set(vt.error.get(idx, ())) if idx in vt.error else set()
            if f and e:
                k = "failed+error"
                if len(st.assertions) > len(f | e):
                    filt["stmt:failed+error+holding"] += 1
            elif f:
                k = "failed-only"
            elif e:
                k = "error-only"
            else:
                k = "all-hold"
            filt["stmt:" + k] += 1
            kinds.add(k)
        if {"failed-only", "error-only"} <= kinds:
            filt["test:failed-only-and-error-only-statements"] += 1
        if "failed+error" in kinds and len(kinds - {"all-hold"}) > 1:
            filt["test:mixed-statement-plus-others"] += 1
        ret = orig_filter(test, result)
        filt["removed"] += before - sum(len(st.assertions) for st in test.statements())
        return ret

    setattr(ag.AssertionGenerator, FMANGLE, staticmethod(remove_non_holding))
    install.filt = filt

    # ---- re-execution of the final assertions on the unmutated module -------------------------------
    orig_gen = gen._generate_assertions

    def generate_assertions(executor, generation_result, test_cluster):
        calls["generate_assertions"] += 1
        ret = orig_gen(executor, generation_result, test_cluster)
        stop = config.configuration.stopping
        fresh = TestCaseExecutor(executor.subject_properties,
                                 maximum_test_execution_timeout=stop.maximum_test_execution_timeout,
                                 test_execution_time_per_statement=stop.test_execution_time_per_statement)
        fresh.add_remote_observer(ato.RemoteAssertionVerificationObserver())
        tests = []
        for chrom in generation_result.test_case_chromosomes:
            twin = chrom.test_case.clone()
            rec = {"stmts": _test_record(twin)}
            try:
                res = fresh.execute(twin)
                rec["result"] = _result_record(res)
                calls["reexecuted_tests"] += 1
            except BaseException as e:  # noqa: BLE001
                rec["harness_error"] = f"{type(e).__name__}: {e}"
            tests.append(rec)
        events.append({"ev": "reexec", "assertion_generation": config.configuration.test_case_output.assertion_generation.name,
                       "tests": tests, "filter": dict(filt)})
        return ret

    gen._generate_assertions = generate_assertions
    install.calls = calls


def finish(events, spec, out):
    events.append({"ev": "monitor-calls", "monitor": "assertion_gen", **getattr(install, "calls", {})})
