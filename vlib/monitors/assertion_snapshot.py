"""Assertion snapshots along the post-search pipeline (C19).

Wrapped (each wrapper counts its calls, see the final ``monitor-calls`` event):

* ``pynguin.generator._generate_assertions`` (exit), ``_minimize_assertions`` (exit), ``_minimize`` (exit) and
  ``_export_chromosome`` (entry): a snapshot event ``{"ev": "snapshot", "step": ..., "tests": [...]}`` with, per test case of
  the suite (in suite order = the index of the exported ``test_<i>``), a stable test id (an attribute set on the TestCase
  object the first time it is seen) and the list of statements ``{"code", "bound", "asserts": [{"kind", "code", "source",
  "exc"}]}``.  Statement text is the code of the statement's CST node; assertion text is rendered with the real
  ``assertion_to_cst`` (``code`` is None for an ExceptionAssertion, which the writer renders structurally).
* ``TestCase.remove_unused_variables``: before/after comparison of every statement's assertion list; a ``ruv`` event per
  call that lost at least one assertion or ``accessible`` object, with the caller (export / postprocess / other).

Raw observations only; the verdict is computed on the parent side (checks/c19_assertions_survive.py).
"""

from __future__ import annotations

import sys


def _caller_kind():
    f = sys._getframe(2)
    for _ in range(6):
        if f is None:
            break
        name = f.f_globals.get("__name__", "")
        if name.endswith("testcase.export"):
            return "export"
        if name.endswith("ga.postprocess"):
            return "postprocess"
        f = f.f_back
    return "other"


def install(events, spec):
    from vlib.monitors import genfile_breaks

    genfile_breaks.apply(events)

    import libcst as cst

    import pynguin.assertion.assertion as ass
    import pynguin.generator as gen
    import pynguin.testcase.testcase as tc

    from pynguin.assertion.assertion_to_ast import assertion_to_cst

    calls = {"_generate_assertions": 0, "_minimize_assertions": 0, "_minimize": 0, "_export_chromosome": 0,
             "remove_unused_variables": 0}
    counter = [0]

    def tid_of(test_case):
        tid = getattr(test_case, "_verif_tid", None)
        if tid is None:
            tid = counter[0]
            counter[0] += 1
            test_case._verif_tid = tid
        return tid

    def render_stmt(stmt):
        try:
            return cst.Module(body=[stmt.node]).code.strip("\n")
        except Exception as e:  # noqa: BLE001
            return f"<unrenderable statement: {type(e).__name__}>"

    def render_assertion(a):
        d = {"kind": type(a).__name__, "code": None, "source": getattr(a, "source", None), "exc": None}
        if isinstance(a, ass.ExceptionAssertion):
            d["exc"] = a.exception_type_name
            return d
        try:
            node = assertion_to_cst(a)
            d["code"] = None if node is None else cst.Module(body=[node]).code.strip("\n")
        except Exception as e:  # noqa: BLE001
            d["render_error"] = f"{type(e).__name__}: {e}"[:200]
        return d

    def stmt_record(stmt):
        return {"code": render_stmt(stmt), "bound": stmt.bound_variable, "asserts": [render_assertion(a) for a in stmt.assertions]}

    def snapshot(suite, step):
        tests = []
        for pos, chrom in enumerate(suite.test_case_chromosomes):
            t = chrom.test_case
            known = getattr(t, "_verif_tid", None) is not None
            tests.append({"tid": tid_of(t), "pos": pos, "new": not known, "stmts": [stmt_record(s) for s in t.statements()]})
        events.append({"ev": "snapshot", "step": step, "tests": tests})

    orig_gen, orig_mina, orig_min, orig_exp = gen._generate_assertions, gen._minimize_assertions, gen._minimize, gen._export_chromosome

    def generate_assertions(executor, generation_result, test_cluster):
        calls["_generate_assertions"] += 1
        ret = orig_gen(executor, generation_result, test_cluster)
        snapshot(generation_result, "generated")
        return ret

    def minimize_assertions(generation_result):
        calls["_minimize_assertions"] += 1
        ret = orig_mina(generation_result)
        snapshot(generation_result, "assertions-minimized")
        return ret

    def minimize(generation_result, algorithm=None):
        calls["_minimize"] += 1
        try:
            return orig_min(generation_result, algorithm)
        finally:
            snapshot(generation_result, "minimized")

    def export_chromosome(chromosome, **kw):
        calls["_export_chromosome"] += 1
        snapshot(chromosome, "export-entry")
        return orig_exp(chromosome, **kw)

    import pynguin.assertion.assertiongenerator as ag

    orig_add = ag.AssertionGenerator._add_assertions

    def add_assertions(self, test_cases):
        # observation + filtering executions (not the mutant executions of MUTATION_ANALYSIS): a timed-out filtering execution
        # keeps all unverified assertions, the checks need to know
        before = genfile_breaks.LOG_COUNTS["executor_warnings"]
        try:
            return orig_add(self, test_cases)
        finally:
            genfile_breaks.LOG_COUNTS["timeouts_during_assertion_generation"] += genfile_breaks.LOG_COUNTS["executor_warnings"] - before

    ag.AssertionGenerator._add_assertions = add_assertions

    # the filtering pass: a result with the timeout flag carries an empty verification trace, so *nothing* is removed
    mangled = "_AssertionGenerator__remove_non_holding_assertions"
    orig_remove = ag.AssertionGenerator.__dict__[mangled].__func__

    def remove_non_holding(test, result):
        genfile_breaks.LOG_COUNTS["filter_results"] += 1
        if getattr(result, "timeout", False):
            genfile_breaks.LOG_COUNTS["filter_results_with_timeout"] += 1
        return orig_remove(test, result)

    setattr(ag.AssertionGenerator, mangled, staticmethod(remove_non_holding))
    gen._generate_assertions = generate_assertions
    gen._minimize_assertions = minimize_assertions
    gen._minimize = minimize
    gen._export_chromosome = export_chromosome

    orig_ruv = tc.TestCase.remove_unused_variables

    def remove_unused_variables(self):
        calls["remove_unused_variables"] += 1
        pre = [(s, list(s.assertions), s.accessible) for s in self._statements]
        if not any(a or acc is not None for _, a, acc in pre):
            return orig_ruv(self)
        pre_rec = [stmt_record(s) if a else None for s, a, _ in pre]
        ret = orig_ruv(self)
        post = self._statements
        dropped, accessible_lost = [], 0
        if len(post) != len(pre):
            events.append({"ev": "ruv-size-changed", "before": len(pre), "after": len(post)})
            return ret
        for i, (s, assertions, acc) in enumerate(pre):
            now = post[i]
            if acc is not None and now.accessible is None:
                accessible_lost += 1
            if assertions:
                left = list(now.assertions)
                lost = [a for a in assertions if not any(a is b for b in left)]
                if lost:
                    rec = dict(pre_rec[i])
                    rec["index"] = i
                    rec["code_after"] = render_stmt(now)
                    rec["lost"] = [render_assertion(a) for a in lost]
                    dropped.append(rec)
        if dropped or accessible_lost:
            events.append({"ev": "ruv", "tid": getattr(self, "_verif_tid", None), "caller": _caller_kind(), "dropped": dropped,
                           "accessible_lost": accessible_lost})
        return ret

    tc.TestCase.remove_unused_variables = remove_unused_variables
    # the dict is serialised when the driver dumps the event log, i.e. with its final counts (also after an exception)
    events.append({"ev": "monitor-calls", "monitor": "assertion_snapshot", "calls": calls})
