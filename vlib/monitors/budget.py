"""Budget monitor (C17): an event log of iteration boundaries with counters kept by the monitor itself.

Wrapped (on the real classes, inside the driver child):
  GenerationAlgorithm.before_search_start     -> counters reset (the stopping conditions reset themselves there, too)
  GenerationAlgorithm.resources_left          -> event "rl" with the returned value
  <Algorithm>.evolve (each class defining it) -> events "evolve-start" / "evolve-end"
  GenerationAlgorithm.after_search_iteration  -> event "iter-end" (the monitor's iteration counter is incremented here)
  GenerationAlgorithm.after_search_finish     -> event "finish"
  TestCaseExecutor.execute                    -> execution counter (+1 at ENTRY, like MaxTestExecutionsStoppingCondition,
                                                 which counts in before_remote_test_case_execution)
  TestCaseExecutor._before_statement_execution-> statement counter: one per statement whose execution begins (the one that
                                                 raises included), exactly what RemoteMaxStatementExecutionsObserver counts;
                                                 MaxStatementExecutionsStoppingCondition adds a test's count after the test
                                                 returned and adds nothing for a timed-out test, so the monitor keeps
                                                 "stmts" (same rule) and "stmts_all" (timed-out tests included)
Every event carries the snapshot [iterations completed, executions, stmts, stmts_all].  None of the counters is read from a
stopping-condition object.

``check_log(events, limits, algorithm)`` is the offline checker (parent side).

VERIF_BREAK=<name,...> applies seeded breaks (self-test only) BEFORE the wrappers are installed.
"""

from __future__ import annotations

import os

_STATE: dict = {}


def install(events, spec):
    import pynguin.ga.algorithms.generationalgorithm as ga
    import pynguin.testcase.execution as ex

    for name in [n for n in os.environ.get("VERIF_BREAK", "").split(",") if n]:
        BREAKS[name]()
        events.append({"ev": "break-applied", "name": name})

    c = {"iters": 0, "execs": 0, "stmts": 0, "stmts_all": 0, "timeouts": 0, "pre_search_execs": 0}
    calls = {"resources_left": 0, "evolve": 0, "after_search_iteration": 0, "before_search_start": 0, "execute": 0,
             "before_statement": 0, "after_search_finish": 0}
    log: list = []
    _STATE.update(c=c, calls=calls, log=log)

    def snap():
        return [c["iters"], c["execs"], c["stmts"], c["stmts_all"]]

    GA = ga.GenerationAlgorithm

    orig_bss = GA.before_search_start

    def before_search_start(self):
        calls["before_search_start"] += 1
        ret = orig_bss(self)
        c["pre_search_execs"] += c["execs"]
        c.update(iters=0, execs=0, stmts=0, stmts_all=0)
        log.append(["search-start", type(self).__name__, snap()])
        return ret

    GA.before_search_start = before_search_start

    orig_rl = GA.resources_left

    def resources_left(self):
        calls["resources_left"] += 1
        before = snap()
        ret = orig_rl(self)
        log.append(["rl", bool(ret), before])
        return ret

    GA.resources_left = resources_left

    orig_asi = GA.after_search_iteration

    def after_search_iteration(self, best):
        calls["after_search_iteration"] += 1
        ret = orig_asi(self, best)
        c["iters"] += 1
        log.append(["iter-end", None, snap()])
        return ret

    GA.after_search_iteration = after_search_iteration

    orig_asf = GA.after_search_finish

    def after_search_finish(self):
        calls["after_search_finish"] += 1
        log.append(["finish", None, snap()])
        return orig_asf(self)

    GA.after_search_finish = after_search_finish

    # every class that defines its own evolve
    import pynguin.ga.algorithms.abstractmosaalgorithm as amosa
    import pynguin.ga.algorithms.dynamosaalgorithm as dyn
    import pynguin.ga.algorithms.mioalgorithm as mio
    import pynguin.ga.algorithms.mosaalgorithm as mosa  # noqa: F401
    import pynguin.ga.algorithms.randomalgorithm as rnd  # noqa: F401
    import pynguin.ga.algorithms.randomsearchalgorithm as rsa  # noqa: F401
    import pynguin.ga.algorithms.wholesuitealgorithm as ws

    def wrap_evolve(cls):
        orig = cls.__dict__.get("evolve")
        if orig is None:
            return

        def evolve(self, *a, **kw):
            calls["evolve"] += 1
            log.append(["evolve-start", None, snap()])
            try:
                return orig(self, *a, **kw)
            finally:
                log.append(["evolve-end", None, snap()])

        cls.evolve = evolve

    for cls in (amosa.AbstractMOSAAlgorithm, dyn.DynaMOSAAlgorithm, mio.MIOAlgorithm, ws.WholeSuiteAlgorithm):
        wrap_evolve(cls)

    # executions and statements
    orig_exec = ex.TestCaseExecutor.execute
    orig_bse = ex.TestCaseExecutor._before_statement_execution  # noqa: SLF001

    def execute(self, test_case):
        calls["execute"] += 1
        c["execs"] += 1
        cell = [0]
        self._c17_cell = cell
        result = orig_exec(self, test_case)
        c["stmts_all"] += cell[0]
        if result.timeout:
            c["timeouts"] += 1
        else:
            c["stmts"] += cell[0]
        return result

    def _before_statement_execution(self, statement, namespace):
        cell = getattr(self, "_c17_cell", None)
        node = orig_bse(self, statement, namespace)
        calls["before_statement"] += 1
        if cell is not None:
            cell[0] += 1
        return node

    ex.TestCaseExecutor.execute = execute
    ex.TestCaseExecutor._before_statement_execution = _before_statement_execution  # noqa: SLF001


def finish(events, spec, out):
    events.append({"ev": "monitor-calls", "monitor": "budget", **_STATE["calls"]})
    events.append({"ev": "budget-log", "log": _STATE["log"], "counters": dict(_STATE["c"])})


# ------------------------------------------------------------------------------------------------
# offline checker (parent side)
# ------------------------------------------------------------------------------------------------
LIMIT_FIELDS = {"maximum_iterations": 0, "maximum_test_executions": 1, "maximum_statement_executions": 2}


def budget_log_of(res):
    for ev in res.get("events", []):
        if ev.get("ev") == "budget-log":
            return ev
    return None


def calls_of(res):
    for ev in res.get("events", []):
        if ev.get("ev") == "monitor-calls" and ev.get("monitor") == "budget":
            return ev
    return None


def met_limits(snapshot, limits):
    """Names of the configured limits already met by a counter snapshot."""
    return [name for name, idx in LIMIT_FIELDS.items() if name in limits and snapshot[idx] >= limits[name]]


def check_log(log, limits, algorithm):
    """Replays one run's event log.  Returns {"witnesses": [(key, desc, detail)], "anomalies": [...], "facts": {...}}.

    An iteration is delimited by events: it starts at "evolve-start" (algorithms with evolve) or, for the algorithms
    without evolve, it is any "iter-end" not preceded by an "evolve-start" since the last boundary.  The snapshot that
    decides is the one of the iteration BOUNDARY: the last resources_left() call since the previous iteration ended, or,
    when the loop did not ask, the end of the previous iteration.
    """
    wit, anomalies = [], []
    facts = {"iterations": 0, "rl_true": 0, "rl_false": 0, "iterations_started": 0, "bound_by": [], "search_starts": 0,
             "finished": False, "final": None, "crossed_within_iteration": []}
    boundary = None          # snapshot of the last rl since the previous iteration end
    boundary_is_rl = False
    last_end = None          # snapshot at the previous iter-end (or search start)
    started = False

    def judge_start(at_snapshot, how):
        facts["iterations_started"] += 1
        ref = boundary if boundary is not None else (last_end if last_end is not None else at_snapshot)
        src = "resources_left" if boundary is not None else "previous-iteration-end"
        for name in met_limits(ref, limits):
            short = name.replace("maximum_", "max_")
            key = f"iteration-started-after:{short}:{algorithm}"
            if src != "resources_left":
                key += ":no-check-at-boundary"
            wit.append((key, f"{algorithm}: iteration {facts['iterations_started']} started ({how}) although the counters at the boundary "
                             f"({src}) were [iters, execs, stmts, stmts_all]={ref} and {name}={limits[name]}", {"boundary": ref, "at_start": at_snapshot}))
        if how == "evolve" and not met_limits(ref, limits) and met_limits(at_snapshot, limits):
            # e.g. a lazily computed fitness in the loop condition, evaluated after resources_left()
            anomalies.append("budget-crossed-between-check-and-iteration-start")
        # executed statements of timed-out tests are not counted by the condition; only recorded
        if "maximum_statement_executions" in limits and ref[3] >= limits["maximum_statement_executions"] > ref[2]:
            anomalies.append("statement-budget-met-only-when-timed-out-tests-are-counted")

    for kind, val, snapshot in log:
        if kind == "search-start":
            facts["search_starts"] += 1
            boundary, last_end, started = None, snapshot, False
        elif kind == "rl":
            facts["rl_true" if val else "rl_false"] += 1
            boundary = snapshot
            met = met_limits(snapshot, limits)
            if val and met:
                anomalies.append("resources_left-true-with-budget-met")
            if not val:
                facts["bound_by"] = met
                if not met:
                    anomalies.append("resources_left-false-without-a-monitored-limit-met")
        elif kind == "evolve-start":
            if started:
                # a second evolve without an iteration end in between: still one iteration of the loop body
                anomalies.append("two-evolve-calls-in-one-iteration")
            else:
                judge_start(snapshot, "evolve")
                started = True
        elif kind == "iter-end":
            if not started:
                judge_start(snapshot, "loop body without evolve")
            facts["iterations"] += 1
            before = boundary if boundary is not None else last_end
            if before is not None:
                crossed = [n for n in met_limits(snapshot, limits) if n not in met_limits(before, limits) and n != "maximum_iterations"]
                facts["crossed_within_iteration"].extend(crossed)
            boundary, last_end, started = None, snapshot, False
        elif kind == "finish":
            facts["finished"] = True
            facts["final"] = snapshot
    if "maximum_iterations" in limits and facts["iterations"] > limits["maximum_iterations"]:
        wit.append((f"completed-iterations-exceed:max_iterations:{algorithm}",
                    f"{algorithm}: {facts['iterations']} iterations completed, maximum_iterations={limits['maximum_iterations']}", {"iterations": facts["iterations"]}))
    return {"witnesses": wit, "anomalies": anomalies, "facts": facts}


# ------------------------------------------------------------------------------------------------
# seeded breaks (self-test)
# ------------------------------------------------------------------------------------------------
BREAKS: dict = {}


def brk(name):
    def deco(fn):
        BREAKS[name] = fn
        return fn
    return deco


@brk("maxexec-gt")
def _break_maxexec_gt():
    """MaxTestExecutionsStoppingCondition.is_fulfilled with '>' instead of '>='."""
    import pynguin.ga.stoppingcondition as sc

    sc.MaxTestExecutionsStoppingCondition.is_fulfilled = lambda self: self._num_executed_tests > self._max_test_executions  # noqa: SLF001


@brk("maxstmt-gt")
def _break_maxstmt_gt():
    import pynguin.ga.stoppingcondition as sc

    sc.MaxStatementExecutionsStoppingCondition.is_fulfilled = lambda self: self._num_executed_statements > self._max_executed_statements  # noqa: SLF001


@brk("maxiter-gt")
def _break_maxiter_gt():
    import pynguin.ga.stoppingcondition as sc

    sc.MaxIterationsStoppingCondition.is_fulfilled = lambda self: self._num_iterations > self._max_iterations  # noqa: SLF001


@brk("check-every-second-iteration")
def _break_check_every_second():
    """MOSA / WHOLE_SUITE / RANDOM loops that ask resources_left() only before every second iteration."""
    import pynguin.ga.algorithms.mosaalgorithm as mosa
    import pynguin.ga.algorithms.randomsearchalgorithm as rsa
    import pynguin.ga.algorithms.wholesuitealgorithm as ws

    def mosa_generate_tests(self):
        self._initialize_generation()
        while self.resources_left() and self._number_of_goals - len(self._archive.covered_goals) != 0:
            for _ in range(2):
                self.evolve()
                self.after_search_iteration(self.create_test_suite(self._archive.solutions))
        return self._finalize_generation()

    mosa.MOSAAlgorithm.generate_tests = mosa_generate_tests

    def ws_generate_tests(self):
        self.before_search_start()
        self._population = self._get_random_population()
        self._update_archive()
        self._sort_population()
        suite = self._get_solution()
        self.before_first_search_iteration(suite)
        while self.resources_left() and suite.get_fitness() != 0.0:
            for _ in range(2):
                self.evolve()
                suite = self._get_solution()
                self.after_search_iteration(suite)
        self.after_search_finish()
        return suite

    ws.WholeSuiteAlgorithm.generate_tests = ws_generate_tests

    def rts_generate_tests(self):
        self.before_search_start()
        solution = self._chromosome_factory.get_chromosome()
        self.before_first_search_iteration(solution)
        while self.resources_left() and solution.get_fitness() != 0.0:
            for _ in range(2):
                candidate = self._chromosome_factory.get_chromosome()
                if candidate.get_fitness() < solution.get_fitness():
                    solution = candidate
                self.after_search_iteration(solution)
        self.after_search_finish()
        return solution

    rsa.RandomTestSuiteSearchAlgorithm.generate_tests = rts_generate_tests


@brk("exec-counted-after")
def _break_exec_counted_late():
    """The execution condition only learns about an execution one test later (off by one in the observer)."""
    import pynguin.ga.stoppingcondition as sc

    def before_remote_test_case_execution(self, test_case):
        if getattr(self, "_lag", False):
            self._num_executed_tests += 1  # noqa: SLF001
        self._lag = True

    sc.MaxTestExecutionsStoppingCondition.before_remote_test_case_execution = before_remote_test_case_execution
