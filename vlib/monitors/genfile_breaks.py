"""Seeded breaks (self-test only) and proposed-patch emulations for the generated-file checks C18, C19, C24.

``VERIF_BREAK=<name>[,<name>...]`` in the environment of the driver child applies the named monkeypatches to the imported
pynguin modules *before* the monitors wrap anything (every monitor's ``install`` calls :func:`apply`, which is idempotent).
Used as a monitor on its own (C18 has no other monitor) it only reports which breaks were applied.

Names starting with ``fix_`` emulate the *proposed patches* for defects of the unchanged tree, so that a check can be shown
to fall silent on that mechanism once the patch is in: they execute the textually patched source of the repo module in a
scratch namespace and graft the patched function / class onto the live module (never editing /repo).
"""

from __future__ import annotations

import os

_APPLIED: list[str] = []
_DONE = False
LOG_COUNTS = {"timeouts": 0, "errors": 0, "executor_warnings": 0, "timeouts_during_assertion_generation": 0, "filter_results": 0,
              "filter_results_with_timeout": 0}


# ---------------------------------------------------------------------------------------------------------------------
# C18-type breaks: the writer / assertion rendering
# ---------------------------------------------------------------------------------------------------------------------
def _writer_omits_import_sys():
    """The written file lacks ``import sys`` (the alias line ``<mod>_ = sys.modules[...]`` then raises NameError)."""
    import pynguin.testcase.export as export

    orig = export.TestSuiteWriter.write

    def write(self, *a, **kw):
        path = orig(self, *a, **kw)
        text = path.read_text()
        path.write_text(text.replace("import sys\n", "", 1))
        return path

    export.TestSuiteWriter.write = write


def _export_flips_eq():
    """The exporter renders ``==`` of object assertions as ``!=`` (the generator-side verification still sees the real one)."""
    import libcst as cst

    import pynguin.assertion.assertion as ass
    import pynguin.testcase.export as export

    orig = export.assertion_to_cst

    class Flip(cst.CSTTransformer):
        def leave_Equal(self, original_node, updated_node):  # noqa: N802
            return cst.NotEqual()

    def flipped(assertion, *a, **kw):
        node = orig(assertion, *a, **kw)
        if node is not None and type(assertion) is ass.ObjectAssertion:
            return node.visit(Flip())
        return node

    export.assertion_to_cst = flipped


def _xfail_on_passing_test():
    """Every test function is decorated with xfail(strict=True), also the ones that pass."""
    import pynguin.testcase.export as export

    orig = export.TestSuiteWriter._build_test_function

    def build(self, idx, tc, exc_types):
        func, used = orig(self, idx, tc, exc_types)
        if not func.decorators:
            func = func.with_changes(decorators=(export._xfail_decorator(),))
        return func, used

    export.TestSuiteWriter._build_test_function = build


def _no_exception_wrapping():
    """The writer never detects a raising statement: no pytest.raises, no xfail marker."""
    import pynguin.testcase.export as export

    def none(self, tc, *a, **kw):
        return [None] * tc.size()

    export.TestSuiteWriter._per_statement_exceptions = none


def _approx_without_tolerance_wrong_value():
    """Float assertions are rendered against value+1 (stale value)."""
    import pynguin.assertion.assertion as ass
    import pynguin.testcase.export as export

    orig = export.assertion_to_cst

    def shifted(assertion, *a, **kw):
        if isinstance(assertion, ass.FloatAssertion):
            return orig(ass.FloatAssertion(assertion.source, assertion.value + 1.0), *a, **kw)
        return orig(assertion, *a, **kw)

    export.assertion_to_cst = shifted


def _filter_execution_times_out():
    """Not a break of the code but of the environment: every execution of the assertion-filtering subprocess executor times out
    (what machine load does).  Shows that AssertionGenerator keeps all unverified assertions in that case (fails open)."""
    import pynguin.testcase.execution as ex

    from pynguin.testcase.execution_result import ExecutionResult

    def execute_multiple(self, test_cases):
        return [ExecutionResult(timeout=True) for _ in test_cases]

    ex.SubprocessTestCaseExecutor.execute_multiple = execute_multiple


# ---------------------------------------------------------------------------------------------------------------------
# C19-type breaks: an oracle silently disappears
# ---------------------------------------------------------------------------------------------------------------------
def _export_drops_last_assertion():
    """While building a test function the exporter forgets the last assertion of the last asserted statement."""
    import pynguin.testcase.export as export

    orig = export.TestSuiteWriter._build_test_function

    def build(self, idx, tc, exc_types):
        victim = None
        for stmt in reversed(tc.statements()):
            if any(export.assertion_to_cst(a) is not None for a in stmt.assertions):
                victim = stmt
                break
        if victim is None:
            return orig(self, idx, tc, exc_types)
        saved = list(victim.assertions)
        try:
            keep = list(saved)
            for k in range(len(keep) - 1, -1, -1):
                if export.assertion_to_cst(keep[k]) is not None:
                    del keep[k]
                    break
            victim.assertions[:] = keep
            return orig(self, idx, tc, exc_types)
        finally:
            victim.assertions[:] = saved

    export.TestSuiteWriter._build_test_function = build


def _minimize_strips_first_assertion():
    """Statement minimisation 'cleans' the first assertion of every test case as if it were an unused statement."""
    import pynguin.generator as gen

    orig = gen._minimize

    def minimize(generation_result, algorithm=None):
        ret = orig(generation_result, algorithm)
        for chrom in generation_result.test_case_chromosomes:
            for stmt in chrom.test_case.statements():
                if stmt.assertions:
                    del stmt.assertions[0]
                    break
        return ret

    gen._minimize = minimize


def _clone_drops_assertions():
    """TestCase.clone() forgets the assertions of the last statement (clones are what the COMBINED/SUITE paths keep)."""
    import pynguin.testcase.testcase as tc

    orig = tc.TestCase.clone

    def clone(self):
        c = orig(self)
        if c._statements:
            c._statements[-1].assertions = []
        return c

    tc.TestCase.clone = clone


# ---------------------------------------------------------------------------------------------------------------------
# C24-type breaks: the seed parser
# ---------------------------------------------------------------------------------------------------------------------
def _deserializer_drops_raises():
    """``with`` blocks are not admitted by the seed parser (pytest.raises blocks vanish)."""
    import libcst as cst

    import pynguin.large_language_model.parsing.deserializer as de

    orig = de.CstStatementDeserializer._handle_compound_statement

    def handle(self, line, state):
        if isinstance(line, cst.With):
            return de.Disposition.DROPPED_UNSUPPORTED_SHAPE
        return orig(self, line, state)

    de.CstStatementDeserializer._handle_compound_statement = handle


def _deserializer_drops_raw_asserts():
    """Asserts of a shape the parser cannot lift (pytest.approx, attribute sources, enum values) are dropped instead of kept raw."""
    import pynguin.large_language_model.parsing.deserializer as de

    orig = de.CstStatementDeserializer._handle_assert

    def handle(self, small, state):
        if de.parse_assertion(small, state.bound_types_by_orig) is None:
            return de.Disposition.ASSERTION_DROPPED
        return orig(self, small, state)

    de.CstStatementDeserializer._handle_assert = handle


def _deserializer_keyword_is_a_read():
    """The name collector treats call keywords (``f(x=1)``) as variable reads again: such statements are dropped."""
    import pynguin.large_language_model.parsing.deserializer as de

    def visit_arg(self, node):
        if node.keyword is not None:
            self.names.add(node.keyword.value)
        node.value.visit(self)
        return False

    de._RootNameCollector.visit_Arg = visit_arg


def _deserializer_lifts_len_off_by_one():
    """A lifted ``assert len(x) == n`` is stored with n+1."""
    import pynguin.assertion.assertion as ass
    import pynguin.large_language_model.parsing.deserializer as de

    orig = de._parse_len_equality_assertion

    def parse(test, known_vars):
        r = orig(test, known_vars)
        if r is None:
            return None
        return r[0], ass.CollectionLengthAssertion(r[1].source, r[1].length + 1)

    de._ASSERTION_SHAPE_PARSERS = tuple(parse if p is orig else p for p in de._ASSERTION_SHAPE_PARSERS)
    de._parse_len_equality_assertion = parse


# ---------------------------------------------------------------------------------------------------------------------
# proposed patches (see the final report of the C18/C19/C24 builder); applied to a scratch copy of the module source
# ---------------------------------------------------------------------------------------------------------------------
RUV_PATCH = [
    (
        "from pynguin.assertion.assertion import ExceptionAssertion\n",
        "from pynguin.assertion.assertion import ExceptionAssertion, ReferenceAssertion\n",
    ),
    (
        "            stmt = self._statements[i]\n            bv = stmt.bound_variable\n\n            if bv is not None:\n",
        "            stmt = self._statements[i]\n            bv = stmt.bound_variable\n"
        "            # Assertions are rendered right after their statement and read the\n"
        "            # variables they refer to: those variables are alive at this point.\n"
        "            for assertion in stmt.assertions:\n"
        "                if isinstance(assertion, ReferenceAssertion):\n"
        "                    alive_vars.add(assertion.source.split(\".\", 1)[0])\n\n"
        "            if bv is not None:\n",
    ),
    (
        "                        self._statements[i] = Statement(\n"
        "                            node=new_node,\n"
        "                            bound_variable=None,\n"
        "                            bound_type=None,\n"
        "                        )\n",
        "                        self._statements[i] = dataclasses.replace(\n"
        "                            stmt, node=new_node, bound_variable=None, bound_type=None\n"
        "                        )\n",
    ),
]

NEEDS_PYTEST_PATCH = [
    (
        "            if any(e is not None for e in exc_types):\n"
        "                needs_pytest = True\n"
        "            func, func_used_exc_types = self._build_test_function(idx, tc, exc_types)\n",
        "            func, func_used_exc_types = self._build_test_function(idx, tc, exc_types)\n"
        "            # pytest is referenced by raises/xfail wrappers and by float assertions (pytest.approx)\n"
        "            if any(e is not None for e in exc_types) or \"pytest.\" in cst.Module(body=[func]).code:\n"
        "                needs_pytest = True\n",
    ),
]


MINIMIZER_PATCH = [  # against the tree at 73cd0bc (statements that *carry* a reference assertion are already protected there)
    (
        "def _carries_reference_assertion(statement: tc.Statement) -> bool:\n",
        "def _is_assertion_protected(statement: tc.Statement, protected: set[str]) -> bool:\n"
        "    \"\"\"A statement must stay if it binds an asserted variable, carries an assertion, or touches an asserted object.\n\n"
        "    A call on (or with) an asserted object may change the state a later assertion observes; removing\n"
        "    it keeps the coverage but makes the already generated assertion stale.  The call itself need not\n"
        "    carry an assertion (mutation-analysis keeps only the assertions that kill a mutant).\n"
        "    \"\"\"\n"
        "    return (\n"
        "        statement.bound_variable in protected\n"
        "        or _carries_reference_assertion(statement)\n"
        "        or bool(statement.used_variables() & protected)\n"
        "    )\n\n\n"
        "def _carries_reference_assertion(statement: tc.Statement) -> bool:\n",
    ),
    (
        "                if statement.bound_variable in protected or _carries_reference_assertion(statement):\n",
        "                if _is_assertion_protected(statement, protected):\n",
        2,
    ),
    (
        "                    if statement.bound_variable in protected or _carries_reference_assertion(\n"
        "                        statement\n"
        "                    ):\n",
        "                    if _is_assertion_protected(statement, protected):\n",
    ),
]


DESERIALIZER_PATCH = [
    (
        "                if bound_stmt.bound_variable is not None:\n"
        "                    assertion.source = bound_stmt.bound_variable\n"
        "                bound_stmt.assertions.append(assertion)\n",
        "                if bound_stmt.bound_variable is not None:\n"
        "                    assertion.source = bound_stmt.bound_variable\n"
        "                # The assert observes the state after the most recently admitted statement\n"
        "                # (which may have mutated the object), not the state right after the binding.\n"
        "                last_stmt = state.testcase.get_statement(state.testcase.size() - 1)\n"
        "                last_stmt.assertions.append(assertion)\n",
    ),
    (
        "    def visit_Attribute(self, node: cst.Attribute) -> bool:  # noqa: N802\n"
        "        chain = _dotted_chain(node)\n"
        "        if chain is not None:\n"
        "            if self._in_target == 0:\n",
        "    def visit_Lambda(self, node: cst.Lambda) -> bool:  # noqa: N802\n"
        "        # Lambda parameters are bound by the lambda itself, not read from the test's scope.\n"
        "        inner = _RootNameCollector()\n"
        "        node.body.visit(inner)\n"
        "        self.names.update(inner.names - set(_params_names(node.params)))\n"
        "        for param in (*node.params.posonly_params, *node.params.params, *node.params.kwonly_params):\n"
        "            if param.default is not None:\n"
        "                param.default.visit(self)\n"
        "        return False\n\n"
        "    def visit_Attribute(self, node: cst.Attribute) -> bool:  # noqa: N802\n"
        "        chain = _dotted_chain(node)\n"
        "        if chain is not None:\n"
        "            if self._in_target == 0:\n",
    ),
]


DESERIALIZER_PATCH.append(
    (
        "                self.names.add(chain[0])\n            return False\n        return True\n",
        "                self.names.add(chain[0])\n            return False\n"
        "        # ``f(x).attr`` / ``type(x).__module__``: only the base expression reads names, ``attr`` is a member name.\n"
        "        node.value.visit(self)\n"
        "        return False\n",
    )
)


FILTER_PATCH = [
    (
        "                ):\n                    self.__remove_non_holding_assertions(test, result)\n",
        "                ):\n"
        "                    if result.timeout:\n"
        "                        # Nothing was verified in this execution: keep no unverified value assertion.\n"
        "                        for statement in test.statements():\n"
        "                            statement.assertions[:] = [\n"
        "                                a for a in statement.assertions if isinstance(a, ass.ExceptionAssertion)\n"
        "                            ]\n"
        "                        continue\n"
        "                    self.__remove_non_holding_assertions(test, result)\n",
    ),
]


def _patched_namespace(module, replacements):
    from pathlib import Path

    src = Path(module.__file__).read_text()
    for old, new, *count in replacements:
        want = count[0] if count else 1
        if src.count(old) == 0 and src.count(new) >= 1:
            continue  # this hunk is already in the tree (the proposed patch was committed)
        if src.count(old) != want:
            raise RuntimeError(f"proposed patch does not apply to {module.__file__}: {old[:60]!r} occurs {src.count(old)} times, expected {want}")
        src = src.replace(old, new)
    ns = {"__name__": module.__name__, "__file__": module.__file__}  # real name: dataclasses looks the module up in sys.modules
    exec(compile(src, module.__file__, "exec"), ns)  # noqa: S102
    return ns


def _fix_ruv():
    import pynguin.testcase.testcase as tc

    ns = _patched_namespace(tc, RUV_PATCH)
    tc.TestCase.remove_unused_variables = ns["TestCase"].remove_unused_variables


def _fix_needs_pytest():
    import pynguin.testcase.export as export

    ns = _patched_namespace(export, NEEDS_PYTEST_PATCH)
    export.TestSuiteWriter.write = ns["TestSuiteWriter"].write


def _fix_minimizer():
    import pynguin.ga.postprocess as pp

    ns = _patched_namespace(pp, MINIMIZER_PATCH)
    pp.ForwardIterativeMinimizationVisitor.visit_default_test_case = ns["ForwardIterativeMinimizationVisitor"].visit_default_test_case
    pp.BackwardIterativeMinimizationVisitor.visit_default_test_case = ns["BackwardIterativeMinimizationVisitor"].visit_default_test_case
    pp.CombinedMinimizationVisitor._minimize_statements_across_test_suite = ns["CombinedMinimizationVisitor"]._minimize_statements_across_test_suite


def _fix_filter():
    import pynguin.assertion.assertiongenerator as ag

    ns = _patched_namespace(ag, FILTER_PATCH)
    ag.AssertionGenerator._add_assertions = ns["AssertionGenerator"]._add_assertions


def _fix_deserializer():
    import pynguin.large_language_model.parsing.deserializer as de

    ns = _patched_namespace(de, DESERIALIZER_PATCH)
    de._RootNameCollector.visit_Lambda = ns["_RootNameCollector"].visit_Lambda
    de._RootNameCollector.visit_Attribute = ns["_RootNameCollector"].visit_Attribute
    de.CstStatementDeserializer._handle_assert = ns["CstStatementDeserializer"]._handle_assert


BREAKS = {
    "writer_omits_import_sys": _writer_omits_import_sys,
    "export_flips_eq": _export_flips_eq,
    "xfail_on_passing_test": _xfail_on_passing_test,
    "no_exception_wrapping": _no_exception_wrapping,
    "approx_wrong_value": _approx_without_tolerance_wrong_value,
    "filter_execution_times_out": _filter_execution_times_out,
    "export_drops_last_assertion": _export_drops_last_assertion,
    "minimize_strips_first_assertion": _minimize_strips_first_assertion,
    "clone_drops_assertions": _clone_drops_assertions,
    "deserializer_drops_raises": _deserializer_drops_raises,
    "deserializer_drops_raw_asserts": _deserializer_drops_raw_asserts,
    "deserializer_keyword_is_a_read": _deserializer_keyword_is_a_read,
    "deserializer_lifts_len_off_by_one": _deserializer_lifts_len_off_by_one,
    "fix_ruv": _fix_ruv,
    "fix_needs_pytest": _fix_needs_pytest,
    "fix_minimizer": _fix_minimizer,
    "fix_deserializer": _fix_deserializer,
    "fix_filter": _fix_filter,
}


def apply(events=None):
    """Apply the breaks named in VERIF_BREAK once per process."""
    global _DONE
    if _DONE:
        return list(_APPLIED)
    _DONE = True
    for name in [n.strip() for n in os.environ.get("VERIF_BREAK", "").split(",") if n.strip()]:
        if name not in BREAKS:
            raise RuntimeError(f"unknown VERIF_BREAK {name!r}")
        BREAKS[name]()
        _APPLIED.append(name)
    if events is not None and _APPLIED:
        events.append({"ev": "seeded-breaks", "names": list(_APPLIED)})
    if events is not None:
        _count_timeout_warnings(events)
    return list(_APPLIED)


def _count_timeout_warnings(events):
    """Pynguin logs a warning whenever a test-case execution (thread or subprocess) timed out; under machine load this makes
    e.g. the assertion filter fail open.  The count lets a check tell load-induced artefacts from deterministic behaviour."""
    import logging

    counts = LOG_COUNTS

    class Handler(logging.Handler):
        def emit(self, record):
            try:
                msg = record.getMessage()
            except Exception:  # noqa: BLE001
                return
            if record.name.startswith("pynguin.testcase."):
                counts["executor_warnings"] += 1  # timeouts, crashed / unreadable subprocesses, threads without result
            if "imeout" in msg:
                counts["timeouts"] += 1
            elif record.levelno >= logging.ERROR:
                counts["errors"] += 1

    handler = Handler(level=logging.WARNING)
    logging.getLogger("pynguin").addHandler(handler)
    events.append({"ev": "log-counts", "counts": counts})


def install(events, spec):
    apply(events)
    events.append({"ev": "monitor-calls", "monitor": "genfile_breaks", "calls": {"install": 1}})
