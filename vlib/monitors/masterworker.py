"""Master/worker protocol monitor (C33): logs what the MASTER side of a master-worker run decides.

``install(events, spec)`` wraps, in the process that calls ``run_pynguin_with_master_worker`` (the driver):

* ``RunningTask._start_worker``  -> ``{"ev": "start", "idx", "mst", "subprocess", "pid", "t", "start_time"}``  (``mst`` is the
  task's ``configuration.stopping.maximum_search_time`` at the moment the worker is forked, ``start_time`` the master's
  ``_start_time`` for this worker)
* ``RunningTask._adjust_search_time_after_crash`` -> ``{"ev": "adjust", "elapsed", "before", "after"}``
* ``RunningTask._restart`` -> ``{"ev": "restart", "ret", "mst_before", "mst_after", "restart_count", "t"}``
* ``RunningTask.get_result`` (recursive: only the outermost call reports) -> ``{"ev": "task-result", ...}``
* ``MasterProcess.get_result`` -> ``{"ev": "master-result", ...}``
* ``PynguinClient.run_pynguin`` -> ``{"ev": "client-enter"}`` / ``{"ev": "client-return", "rc", "wall"}``
* ``finish`` -> ``{"ev": "monitor-calls", "monitor": "masterworker", "calls": {...}}``

The wrappers only read; they never change an argument, a return value or an exception.

Seeded breaks for the self-test (never active in a normal run): ``VERIF_BREAK=<name>[,<name>...]`` applies, before the
wrappers are installed, one of ``BREAKS`` by monkeypatching inside this interpreter (/repo is untouched).
"""

from __future__ import annotations

import os
import time

_STATE: dict = {}


# ------------------------------------------------------------------------------------------------
# seeded breaks (self-test only)
# ------------------------------------------------------------------------------------------------
def _brk_adjust_rounds_up():
    """`_adjust_search_time_after_crash` rounds the remaining time up instead of truncating: a worker that dies
    within the first second does not reduce the remaining search time."""
    import math

    import pynguin.master_worker.master as m

    def _adjust_search_time_after_crash(self, elapsed_time):
        current = self._task.configuration.stopping.maximum_search_time
        if current > 0:
            remaining = max(current - elapsed_time, 0.0)
            self._task.configuration.stopping.maximum_search_time = math.ceil(remaining)  # seeded: ceil instead of int

    m.RunningTask._adjust_search_time_after_crash = _adjust_search_time_after_crash


def _brk_adjust_noop():
    """`_adjust_search_time_after_crash` forgets to write the reduced value back."""
    import pynguin.master_worker.master as m

    def _adjust_search_time_after_crash(self, elapsed_time):
        current = self._task.configuration.stopping.maximum_search_time
        if current > 0:
            remaining = max(current - elapsed_time, 0.0)  # seeded: computed, never stored
            m._LOGGER.info("remaining %s", remaining)

    m.RunningTask._adjust_search_time_after_crash = _adjust_search_time_after_crash


def _brk_restart_ignores_zero():
    """`_restart` restarts without looking at the remaining search time (bounded by a restart counter only)."""
    import pynguin.master_worker.master as m

    from pynguin import config

    def _restart(self):
        elapsed_time = time.time() - self._start_time
        self._adjust_search_time_after_crash(elapsed_time)
        # seeded: the `maximum_search_time <= 0 -> return False` check is gone; give up after 6 restarts instead
        if self._restart_count >= 6:
            return False
        self._restart_count += 1
        if self._restart_count >= 1 and config.configuration.use_master_worker and not self._force_subprocess_mode:
            self._force_subprocess_mode = True
            self._task.configuration.subprocess = True
            self._task.configuration.subprocess_if_recommended = False
        self._start_worker(self._task)
        return True

    m.RunningTask._restart = _restart


def _brk_restart_zero_check_off_by_one():
    """`_restart` compares with `< 0` instead of `<= 0`: a worker is started with zero seconds of search time."""
    import pynguin.master_worker.master as m

    from pynguin import config

    def _restart(self):
        elapsed_time = time.time() - self._start_time
        self._adjust_search_time_after_crash(elapsed_time)
        if self._task.configuration.stopping.maximum_search_time < 0:  # seeded: < instead of <=
            return False
        if self._restart_count >= 8:  # keeps the seeded run finite
            return False
        self._restart_count += 1
        if self._restart_count >= 1 and config.configuration.use_master_worker and not self._force_subprocess_mode:
            self._force_subprocess_mode = True
            self._task.configuration.subprocess = True
            self._task.configuration.subprocess_if_recommended = False
        self._start_worker(self._task)
        return True

    m.RunningTask._restart = _restart


def _brk_client_none_is_ok():
    """The client maps a missing return code (worker error / no worker result) to OK."""
    import pynguin.master_worker.client as c

    from pynguin.generator import ReturnCode
    from pynguin.master_worker.worker import WorkerReturnCode

    def run_pynguin(self):
        try:
            task_id = self.master.start_pynguin(self.configuration)
            result = self.master.get_result(task_id)
            if result is None:
                return ReturnCode.NO_TESTS_GENERATED
            if result.worker_return_code == WorkerReturnCode.OK and result.return_code is not None:
                return result.return_code
            return ReturnCode.OK  # seeded: everything else "went fine"
        except Exception:  # noqa: BLE001
            return ReturnCode.SETUP_FAILED

    c.PynguinClient.run_pynguin = run_pynguin


def _brk_eof_swallowed_ok():
    """`get_result` swallows the EOFError of a dead worker and reports an OK result without restarting."""
    import pynguin.master_worker.master as m

    from pynguin.generator import ReturnCode
    from pynguin.master_worker.worker import WorkerResult, WorkerReturnCode

    def get_result(self):
        try:
            result = self._receiving_connection.recv()
            self._receiving_connection.close()
            result.restart_count = self._restart_count
            return result
        except EOFError:  # seeded
            return WorkerResult(task_id=self._task.task_id, worker_return_code=WorkerReturnCode.OK,
                                return_code=ReturnCode.OK, restart_count=self._restart_count)

    m.RunningTask.get_result = get_result


def _brk_short_crashes_free():
    """`_adjust_search_time_after_crash` ignores crashes that took less than a second ("nothing was consumed")."""
    import pynguin.master_worker.master as m

    def _adjust_search_time_after_crash(self, elapsed_time):
        current = self._task.configuration.stopping.maximum_search_time
        if current > 0 and elapsed_time >= 1.0:  # seeded: "short" crashes are free
            self._task.configuration.stopping.maximum_search_time = int(max(current - elapsed_time, 0.0))

    m.RunningTask._adjust_search_time_after_crash = _adjust_search_time_after_crash


def _brk_adjust_undercounts():
    """`_adjust_search_time_after_crash` subtracts only a quarter of the elapsed time (unit mix-up): every restart still
    reduces the account, but restarts go on after the wall clock has used up the budget."""
    import pynguin.master_worker.master as m

    def _adjust_search_time_after_crash(self, elapsed_time):
        current = self._task.configuration.stopping.maximum_search_time
        if current > 0:
            remaining = max(current - elapsed_time / 4, 0.0)  # seeded
            self._task.configuration.stopping.maximum_search_time = int(remaining)

    m.RunningTask._adjust_search_time_after_crash = _adjust_search_time_after_crash


BREAKS = {
    "adjust-rounds-up": _brk_adjust_rounds_up,
    "adjust-noop": _brk_adjust_noop,
    "restart-ignores-zero": _brk_restart_ignores_zero,
    "restart-zero-off-by-one": _brk_restart_zero_check_off_by_one,
    "client-none-is-ok": _brk_client_none_is_ok,
    "eof-swallowed-ok": _brk_eof_swallowed_ok,
    "short-crashes-free": _brk_short_crashes_free,
    "adjust-undercounts": _brk_adjust_undercounts,
}


# ------------------------------------------------------------------------------------------------
def _name(x):
    return getattr(x, "name", None) if x is not None else None


def _result_summary(res):
    if res is None:
        return {"none": True}
    err = getattr(res, "error", None)
    return {
        "type": type(res).__name__,
        "worker_return_code": _name(getattr(res, "worker_return_code", None)),
        "return_code": _name(getattr(res, "return_code", None)),
        "restart_count": getattr(res, "restart_count", None),
        "error": (str(err)[:200] if err is not None else None),
    }


def install(events, spec=None):
    """Wrap the master side.  Returns the state dict (calls counters) — also kept module-global for finish()."""
    for name in filter(None, os.environ.get("VERIF_BREAK", "").split(",")):
        if name in BREAKS:
            BREAKS[name]()
            events.append({"ev": "seeded-break", "name": name})

    import pynguin.master_worker.client as c
    import pynguin.master_worker.master as m

    calls = {"start": 0, "restart": 0, "adjust": 0, "task-result": 0, "master-result": 0, "client": 0}
    state = {"calls": calls, "depth": 0, "events": events}
    _STATE.clear()
    _STATE.update(state)

    RT = m.RunningTask

    def cfg_of(task):
        return task.configuration

    orig_start = RT.__dict__["_start_worker"]

    def _start_worker(self, task):
        idx = calls["start"]
        calls["start"] += 1
        cfg = cfg_of(task)
        ev = {"ev": "start", "idx": idx, "mst": cfg.stopping.maximum_search_time, "subprocess": bool(cfg.subprocess),
              "t": time.time(), "pid": None}
        try:
            task._c33_start_index = idx  # read by the scripted worker stub (fork keeps it); ignored by the real worker
        except Exception:  # noqa: BLE001
            pass
        events.append(ev)
        try:
            return orig_start(self, task)
        finally:
            try:
                ev["pid"] = self._worker_process.pid
                ev["start_time"] = self._start_time  # the master's own reference point for "elapsed"
            except Exception:  # noqa: BLE001
                pass

    orig_adjust = RT.__dict__["_adjust_search_time_after_crash"]

    def _adjust_search_time_after_crash(self, elapsed_time):
        calls["adjust"] += 1
        before = cfg_of(self._task).stopping.maximum_search_time
        try:
            return orig_adjust(self, elapsed_time)
        finally:
            events.append({"ev": "adjust", "elapsed": elapsed_time, "before": before,
                           "after": cfg_of(self._task).stopping.maximum_search_time})

    orig_restart = RT.__dict__["_restart"]

    def _restart(self):
        calls["restart"] += 1
        before = cfg_of(self._task).stopping.maximum_search_time
        ev = {"ev": "restart", "mst_before": before, "t": time.time(), "ret": None, "raised": None}
        events.append(ev)
        try:
            ret = orig_restart(self)
            ev["ret"] = bool(ret)
            return ret
        except BaseException as e:
            ev["raised"] = type(e).__name__
            raise
        finally:
            ev["mst_after"] = cfg_of(self._task).stopping.maximum_search_time
            ev["restart_count"] = self._restart_count
            ev["subprocess_after"] = bool(cfg_of(self._task).subprocess)

    orig_get = RT.__dict__["get_result"]

    def get_result(self):
        outer = state["depth"] == 0
        state["depth"] += 1
        if outer:
            calls["task-result"] += 1
        try:
            res = orig_get(self)
            if outer:
                events.append({"ev": "task-result", "t": time.time(), "result": _result_summary(res)})
            return res
        except BaseException as e:
            if outer:
                events.append({"ev": "task-result", "t": time.time(), "raised": f"{type(e).__name__}: {str(e)[:120]}"})
            raise
        finally:
            state["depth"] -= 1
            state["max_depth"] = max(state.get("max_depth", 0), state["depth"] + 1)

    MP = m.MasterProcess
    orig_mget = MP.__dict__["get_result"]

    def master_get_result(self, task_id):
        calls["master-result"] += 1
        try:
            res = orig_mget(self, task_id)
            events.append({"ev": "master-result", "result": _result_summary(res)})
            return res
        except BaseException as e:
            events.append({"ev": "master-result", "raised": f"{type(e).__name__}: {str(e)[:120]}"})
            raise

    PC = c.PynguinClient
    orig_run = PC.__dict__["run_pynguin"]

    def run_pynguin(self):
        calls["client"] += 1
        t0 = time.time()
        events.append({"ev": "client-enter", "t": t0, "mst": self.configuration.stopping.maximum_search_time,
                       "subprocess": bool(self.configuration.subprocess)})
        try:
            rc = orig_run(self)
            events.append({"ev": "client-return", "rc": _name(rc) if rc is not None else None, "rc_repr": repr(rc),
                           "wall": time.time() - t0, "t": time.time()})
            return rc
        except BaseException as e:
            events.append({"ev": "client-raised", "exc": f"{type(e).__name__}: {str(e)[:160]}", "wall": time.time() - t0})
            raise

    RT._start_worker = _start_worker
    RT._adjust_search_time_after_crash = _adjust_search_time_after_crash
    RT._restart = _restart
    RT.get_result = get_result
    MP.get_result = master_get_result
    PC.run_pynguin = run_pynguin
    state["undo"] = [(RT, "_start_worker", orig_start), (RT, "_adjust_search_time_after_crash", orig_adjust),
                     (RT, "_restart", orig_restart), (RT, "get_result", orig_get), (MP, "get_result", orig_mget),
                     (PC, "run_pynguin", orig_run)]
    return state


def calls_event(state=None):
    st = state or _STATE
    return {"ev": "monitor-calls", "monitor": "masterworker", "calls": dict(st.get("calls", {})),
            "max_depth": st.get("max_depth", 0)}


def reset_counters(state=None):
    st = state or _STATE
    for k in st.get("calls", {}):
        st["calls"][k] = 0
    st["depth"] = 0
    st["max_depth"] = 0


def finish(events, spec=None, out=None):
    events.append(calls_event())
