"""Statement-minimisation monitor (C22).

Wraps ``pynguin.generator._minimize(generation_result, algorithm)`` and records raw observations (the verdict is computed on
the parent side, checks/c22_minimization_coverage.py):

* snapshot of the suite *before* and *after*: per test the rendered statements (full text, right-hand side of a simple
  assignment, bound variable) with their assertions (class, repr, source);
* coverage per optimised coverage function RECOMPUTED FROM SCRATCH before and after: a new suite chromosome built from
  clones of the test cases (no cached value, no last execution result), a *new* ``TestCaseExecutor`` on the run's subject
  properties, and a shallow copy of the coverage function bound to that executor.  (``_minimize``'s own post-check reads
  ``generation_result.get_coverage_for`` which is served from the cache unless something marked the suite changed.)  The cached
  values ``_minimize`` itself sees afterwards are recorded too (``cached_after``);
* attribution of every lost *asserted statement* to the step that lost it.  An asserted statement is a statement that binds
  a variable ``v`` such that some reference assertion of the same test has source ``v`` ("bare") or ``v.<attr>`` ("dotted").
  It is *present* while the test case (same object, still referenced by the suite) contains a statement with the same bound
  variable and the same text.  Steps are wrappers on ``TestCase.remove_unused_variables``, every minimisation visitor's
  ``visit_default_test_case`` / ``visit_test_suite_chromosome`` (Forward/Backward iterative, UnusedStatements, TestSuite,
  Combined), ``ExceptionTruncation`` and ``EmptyTestCaseRemover``; the innermost active step that observes the loss owns it.
  For the iterative visitors the record says whether the variable was protected at entry according to an independent
  reference of the protection rule (bare-source reference assertions + backward dependencies), and whether any assertion
  still referred to it at entry.

VERIF_BREAK=<name> applies a seeded break from ``BREAKS`` (self-test only).
"""

from __future__ import annotations

import collections
import copy
import os
import types


# --------------------------------------------------------------------------------------------------------------------
def _break_wrong_direction():
    """The minimisers accept a removal when coverage is <= the original instead of == (wrong comparison)."""
    import math

    import pynguin.ga.postprocess as pp

    del math
    pp.math = types.SimpleNamespace(isclose=lambda a, b, **kw: b <= a + 1e-9)


def _break_loose_tolerance():
    """Coverage compared with an absolute tolerance of 0.2: small losses are accepted one after the other."""
    import math

    import pynguin.ga.postprocess as pp

    pp.math = types.SimpleNamespace(isclose=lambda a, b, **kw: math.isclose(a, b, abs_tol=0.2))


def _break_protection_disabled():
    """The iterative minimisers no longer protect asserted variables."""
    import pynguin.ga.postprocess as pp

    pp.get_assertion_protected_variables = lambda test_case: set()


def _break_dependencies_one_level():
    """Backward dependencies of asserted variables are followed for one pass over the statements only (no fixpoint): in a chain
    a -> b -> c -> asserted only c (and whatever happens to come later in statement order) is protected."""
    import pynguin.ga.postprocess as pp

    def _add_backward_dependencies(test_case, protected):
        for statement in test_case.statements():
            bv = statement.bound_variable
            if bv is not None and bv in protected:
                protected.update(statement.used_variables())

    pp._add_backward_dependencies = _add_backward_dependencies


def _break_statement_rewritten():
    """The iterative minimisers 'simplify' a literal: after minimising, the first unasserted statement that is left is replaced
    by a statement that was not part of the original test."""
    import libcst as cst

    import pynguin.ga.postprocess as pp
    import pynguin.testcase.testcase as tcm

    def patch(cls):
        orig = cls.visit_default_test_case

        def visit(self, test_case):
            orig(self, test_case)
            for i, st in enumerate(test_case.statements()):
                if not st.assertions and isinstance(st.node, cst.SimpleStatementLine):
                    name = st.bound_variable or "seeded"
                    test_case.replace_statement(i, tcm.Statement(node=cst.parse_module(f"{name} = 'seeded-break'\n").body[0],
                                                                 bound_variable=st.bound_variable, bound_type=str))
                    break

        cls.visit_default_test_case = visit

    patch(pp.ForwardIterativeMinimizationVisitor)
    patch(pp.BackwardIterativeMinimizationVisitor)


# --------------------------------------------------------------------------------------------------------------------
# proposed repairs of defects of the unchanged tree (applied by monkeypatching; the self-test checks that the witness key goes away)
# --------------------------------------------------------------------------------------------------------------------
def _fix_remove_unused_keeps_asserted():
    """TestCase.remove_unused_variables: a variable some assertion of the test refers to counts as used."""
    import pynguin.testcase.testcase as tcm

    def remove_unused_variables(self):
        self._code_cache = None
        asserted = {
            a.source.split(".", 1)[0]
            for st in self._statements
            for a in st.assertions
            if isinstance(getattr(a, "source", None), str)
        }
        alive_vars: set[str] = set()
        for i in range(len(self._statements) - 1, -1, -1):
            stmt = self._statements[i]
            bv = stmt.bound_variable
            if bv is not None:
                if bv in alive_vars or bv in asserted:
                    alive_vars.discard(bv)
                    alive_vars.update(stmt.used_variables())
                else:
                    new_node = self._transform_assign_to_expr(stmt.node)
                    if new_node is not stmt.node:
                        self._statements[i] = tcm.Statement(node=new_node, bound_variable=None, bound_type=None,
                                                            assertions=list(stmt.assertions), accessible=stmt.accessible, ml_info=stmt.ml_info)
                    alive_vars.update(stmt.used_variables())
            else:
                alive_vars.update(stmt.used_variables())
        self._rebuild_registry()

    tcm.TestCase.remove_unused_variables = remove_unused_variables


def _fix_combined_protection():
    """CombinedMinimizationVisitor consults get_assertion_protected_variables like the iterative visitors do."""
    import math

    import pynguin.ga.postprocess as pp
    import pynguin.ga.testcasechromosome as tcc

    def _minimize_statements_across_test_suite(self, chromosome, original_coverage):
        statements_changed = True
        while statements_changed:
            statements_changed = False
            for test_case_idx, test_case_chrom in enumerate(chromosome.test_case_chromosomes):
                test_case = test_case_chrom.test_case
                protected = pp.get_assertion_protected_variables(test_case)
                i = 0
                while i < test_case.size():
                    if test_case.get_statement(i).bound_variable in protected:
                        i += 1
                        continue
                    test_suite_clone = chromosome.clone()
                    clone_test_case = test_suite_clone.get_test_case_chromosome(test_case_idx).test_case
                    clone_test_case.remove_statement_with_forward_dependencies(i)
                    test_suite_clone.set_test_case_chromosome(test_case_idx, tcc.TestCaseChromosome(clone_test_case))
                    minimized = [f.compute_coverage(test_suite_clone) for f in self._fitness_functions]
                    if all(map(math.isclose, original_coverage, minimized)):
                        removed = test_case.remove_statement_with_forward_dependencies(i)
                        self._removed_statements += len(removed)
                        chromosome.set_test_case_chromosome(test_case_idx, tcc.TestCaseChromosome(test_case))
                        statements_changed = True
                    else:
                        i += 1

    pp.CombinedMinimizationVisitor._minimize_statements_across_test_suite = _minimize_statements_across_test_suite


def _fix_protect_dotted_sources():
    """_directly_asserted_variables: the protected name is the variable an attribute path starts with ('var_0.balance' -> 'var_0')."""
    import pynguin.ga.postprocess as pp

    from pynguin.assertion.assertion import ExceptionAssertion, ReferenceAssertion

    def _directly_asserted_variables(test_case):
        protected = set()
        for statement in test_case.statements():
            for assertion in statement.assertions:
                if isinstance(assertion, ExceptionAssertion):
                    continue
                if isinstance(assertion, ReferenceAssertion) and isinstance(assertion.source, str):
                    protected.add(assertion.source.split(".", 1)[0])
        return protected

    pp._directly_asserted_variables = _directly_asserted_variables


def _fix_minimiser_compares_covered_goals():
    """postprocess._coverages additionally returns one 0/1 indicator per coverage goal (code object, predicate outcome, line) of
    the executed test, so that the element-wise ``math.isclose`` of the iterative visitors only accepts a removal that leaves the
    *set* of covered goals unchanged - not merely their number."""
    import pynguin.ga.postprocess as pp
    import pynguin.ga.testcasechromosome as tcc
    import pynguin.ga.testsuitechromosome as tsc

    def _coverages(fitness_functions, test_case):
        suite = tsc.TestSuiteChromosome()
        chrom = tcc.TestCaseChromosome(test_case=test_case)
        suite.add_test_case_chromosome(chrom)
        values = [ff_.compute_coverage(suite) for ff_ in fitness_functions]
        result = chrom.get_last_execution_result()
        sp = None
        for ff_ in fitness_functions:
            sp = ff_._executor.subject_properties  # noqa: SLF001
            break
        if result is None or sp is None:
            return values
        trace = result.execution_trace
        values += [float(c in trace.executed_code_objects) for c in sp.existing_code_objects]
        values += [float(trace.true_distances.get(p) == 0.0) for p in sp.existing_predicates]
        values += [float(trace.false_distances.get(p) == 0.0) for p in sp.existing_predicates]
        values += [float(line in trace.covered_line_ids) for line in sp.existing_lines]
        return values

    pp._coverages = _coverages


def _fix_post_check_recomputes():
    """TestCasePostProcessor marks the suite as changed after it modified its test cases, so that the coverage post-check of
    generator._minimize recomputes instead of reading the cached pre-minimisation value."""
    import pynguin.ga.postprocess as pp

    orig = pp.TestCasePostProcessor.visit_test_suite_chromosome

    def visit_test_suite_chromosome(self, chromosome):
        orig(self, chromosome)
        chromosome.changed = True

    pp.TestCasePostProcessor.visit_test_suite_chromosome = visit_test_suite_chromosome


def _fix_restore_path_emulated():
    """Emulates the repaired restore path of generator._minimize (one get_coverage_for call per coverage function): a collection
    of coverage functions passed to TestSuiteChromosome.get_coverage_for is evaluated function by function."""
    import pynguin.ga.testsuitechromosome as tsc

    from pynguin.utils.orderedset import OrderedSet

    orig = tsc.TestSuiteChromosome.get_coverage_for

    def get_coverage_for(self, coverage_function):
        if isinstance(coverage_function, (OrderedSet, list, set, tuple)):
            values = [orig(self, f) for f in coverage_function]
            return values[0] if values else 0.0
        return orig(self, coverage_function)

    tsc.TestSuiteChromosome.get_coverage_for = get_coverage_for


def _fix_protect_assertion_carriers():
    """get_assertion_protected_variables also protects the statements the reference assertions are *attached to* (an assertion
    on var_0 rendered after `var_1 = f(var_0)` disappears together with that statement) and everything those statements read;
    the visitors additionally never remove a statement that carries a reference assertion (it may bind nothing)."""
    import math

    import pynguin.ga.postprocess as pp
    import pynguin.ga.testcasechromosome as tcc

    from pynguin.assertion.assertion import ReferenceAssertion

    def carries(statement):
        return any(isinstance(a, ReferenceAssertion) for a in statement.assertions)

    orig_direct = pp._directly_asserted_variables

    def _directly_asserted_variables(test_case):
        protected = orig_direct(test_case)
        bound = {st.bound_variable for st in test_case.statements() if st.bound_variable is not None}
        for st in test_case.statements():
            if carries(st):
                if st.bound_variable is not None:
                    protected.add(st.bound_variable)
                protected.update(st.used_variables() & bound)
        return protected

    pp._directly_asserted_variables = _directly_asserted_variables

    def _minimize_statements_across_test_suite(self, chromosome, original_coverage):
        statements_changed = True
        while statements_changed:
            statements_changed = False
            for test_case_idx, test_case_chrom in enumerate(chromosome.test_case_chromosomes):
                test_case = test_case_chrom.test_case
                protected = pp.get_assertion_protected_variables(test_case)
                i = 0
                while i < test_case.size():
                    statement = test_case.get_statement(i)
                    if statement.bound_variable in protected or carries(statement):
                        i += 1
                        continue
                    test_suite_clone = chromosome.clone()
                    clone_test_case = test_suite_clone.get_test_case_chromosome(test_case_idx).test_case
                    clone_test_case.remove_statement_with_forward_dependencies(i)
                    test_suite_clone.set_test_case_chromosome(test_case_idx, tcc.TestCaseChromosome(clone_test_case))
                    minimized = [f.compute_coverage(test_suite_clone) for f in self._fitness_functions]
                    if all(map(math.isclose, original_coverage, minimized)):
                        removed = test_case.remove_statement_with_forward_dependencies(i)
                        self._removed_statements += len(removed)
                        chromosome.set_test_case_chromosome(test_case_idx, tcc.TestCaseChromosome(test_case))
                        statements_changed = True
                    else:
                        i += 1

    pp.CombinedMinimizationVisitor._minimize_statements_across_test_suite = _minimize_statements_across_test_suite


BREAKS = {
    "PROPOSED_FIX_protect-assertion-carriers": _fix_protect_assertion_carriers,
    "PROPOSED_FIX_minimiser-compares-covered-goals": _fix_minimiser_compares_covered_goals,
    "PROPOSED_FIX_post-check-recomputes": _fix_post_check_recomputes,
    "PROPOSED_FIX_restore-path-emulated": _fix_restore_path_emulated,
    "PROPOSED_FIX_protect-dotted-sources": _fix_protect_dotted_sources,
    "PROPOSED_FIX_remove-unused-keeps-asserted": _fix_remove_unused_keeps_asserted,
    "PROPOSED_FIX_combined-protection": _fix_combined_protection,
    "wrong-direction": _break_wrong_direction,
    "loose-tolerance": _break_loose_tolerance,
    "protection-disabled": _break_protection_disabled,
    "dependencies-one-level": _break_dependencies_one_level,
    "statement-rewritten": _break_statement_rewritten,
}


# --------------------------------------------------------------------------------------------------------------------
def stmt_record(st):
    import libcst as cst

    import pynguin.assertion.assertion as ass

    try:
        code = cst.Module(body=[st.node]).code.strip()
    except Exception as e:  # noqa: BLE001
        code = f"<unrenderable {type(e).__name__}>"
    rhs = code
    node = st.node
    if isinstance(node, cst.SimpleStatementLine) and len(node.body) == 1 and isinstance(node.body[0], cst.Assign) and len(node.body[0].targets) == 1:
        try:
            rhs = cst.Module(body=[cst.SimpleStatementLine(body=[cst.Expr(value=node.body[0].value)])]).code.strip()
        except Exception:  # noqa: BLE001
            rhs = code
    asserts = []
    for a in st.assertions:
        rec = {"cls": type(a).__name__, "repr": repr(a)[:120]}
        if isinstance(a, ass.ReferenceAssertion):
            rec["source"] = a.source
        asserts.append(rec)
    return {"code": code[:240], "rhs": rhs[:240], "bound": st.bound_variable, "assertions": asserts,
            "uses": sorted(st.used_variables())}


def test_record(test_case):
    return [stmt_record(st) for st in test_case.statements()]


def asserted_bindings(stmts):
    """{var: {"code", "tag"}} for statements whose bound variable some reference assertion of the test refers to."""
    sources = [a["source"] for s in stmts for a in s["assertions"] if isinstance(a.get("source"), str)]
    bare = set(sources)
    roots = {s.split(".", 1)[0] for s in sources if "." in s}
    out = {}
    for s in stmts:
        v = s["bound"]
        if v is None:
            continue
        if v in bare:
            out[v] = {"code": s["code"], "tag": "bare"}
        elif v in roots:
            out[v] = {"code": s["code"], "tag": "dotted"}
    return out


def chain_info(stmts):
    """For every asserted binding: length of the longest backward dependency chain ending in it (the statement itself counts)
    and the statement index of the root of that chain."""
    pos = {s["bound"]: i for i, s in enumerate(stmts) if s["bound"] is not None}
    memo: dict = {}

    def depth(v):
        if v in memo:
            return memo[v]
        memo[v] = (1, pos[v])  # guards against cycles (cannot happen in straight-line code)
        best = (1, pos[v])
        for u in stmts[pos[v]]["uses"]:
            if u in pos and pos[u] < pos[v]:
                d, root = depth(u)
                if d + 1 > best[0]:
                    best = (d + 1, root)
        memo[v] = best
        return best

    out = {}
    for v in asserted_bindings(stmts):
        d, root = depth(v)
        out[v] = {"len": d, "root_index": root, "unasserted_intermediates": None}
    return out


def reference_protected(stmts):
    """Independent reading of the protection rule: variables a reference assertion refers to (root of the source path) + backward dependencies."""
    bound = {s["bound"] for s in stmts if s["bound"] is not None}
    prot = {a["source"].split(".", 1)[0] for s in stmts for a in s["assertions"] if isinstance(a.get("source"), str)} & bound
    changed = True
    while changed:
        changed = False
        for s in stmts:
            if s["bound"] in prot:
                for u in s["uses"]:
                    if u in bound and u not in prot:
                        prot.add(u)
                        changed = True
    return prot


def install(events, spec):
    import pynguin.configuration as config
    import pynguin.ga.postprocess as pp
    import pynguin.ga.testcasechromosome as tcc
    import pynguin.ga.testsuitechromosome as tsc
    import pynguin.generator as gen
    import pynguin.testcase.testcase as tcm

    from pynguin.testcase.execution import TestCaseExecutor

    for name in filter(None, os.environ.get("VERIF_BREAK", "").split(",")):
        BREAKS[name]()
        events.append({"ev": "seeded-break", "name": name})

    calls: collections.Counter = collections.Counter()
    S: dict = {"active": False, "tracked": {}, "stack": [], "losses": [], "suite": None}

    # ---- presence bookkeeping -------------------------------------------------------------------
    def in_suite_ids():
        suite = S["suite"]
        return {id(ch.test_case) for ch in suite.test_case_chromosomes} if suite is not None else set()

    def present(entry, members):
        t = entry["tc"]
        if id(t) not in members:
            return set()
        have = {}
        for st in t.statements():
            if st.bound_variable is not None:
                have.setdefault(st.bound_variable, set()).add(stmt_record_code(st))
        return {v for v, info in entry["asserted"].items() if info["code"] in have.get(v, ())}

    def stmt_record_code(st):
        import libcst as cst

        try:
            return cst.Module(body=[st.node]).code.strip()[:240]
        except Exception:  # noqa: BLE001
            return "<unrenderable>"

    class Step:
        def __init__(self, name, targets, extra=None):
            self.name, self.targets, self.extra = name, targets, extra or {}

        def __enter__(self):
            S["stack"].append(self.name)
            self.entry_info = {}
            self.consulted_at_entry = calls["get_assertion_protected_variables"]
            if self.name.startswith("iterative") or self.name == "combined-visitor":
                for e in self.targets:
                    stmts = test_record(e["tc"])
                    carriers: dict = {}
                    for s_ in stmts:
                        for a_ in s_["assertions"]:
                            if isinstance(a_.get("source"), str):
                                carriers.setdefault(a_["source"].split(".", 1)[0], set()).add(s_["code"])
                    self.entry_info[id(e["tc"])] = {"protected": reference_protected(stmts), "asserted_now": asserted_bindings(stmts),
                                                   "real_protected": None, "carriers": carriers}
                    try:
                        self.entry_info[id(e["tc"])]["real_protected"] = sorted(orig_protected(e["tc"]))
                    except Exception as ex:  # noqa: BLE001
                        self.entry_info[id(e["tc"])]["real_protected"] = f"raised {type(ex).__name__}"
            return self

        def __exit__(self, et, ev, tb):
            members = in_suite_ids()
            for e in self.targets:
                now = present(e, members)
                lost = e["alive"] - now
                for v in sorted(lost):
                    info = e["asserted"][v]
                    rec = {"test": e["index"], "var": v, "code": info["code"], "tag": info["tag"], "step": self.name,
                           "stack": list(S["stack"]), "test_removed_from_suite": id(e["tc"]) not in members}
                    ei = self.entry_info.get(id(e["tc"]))
                    if ei is not None:
                        rec["protected_at_entry"] = v in ei["protected"]
                        rec["asserted_at_entry"] = ei["asserted_now"].get(v, {}).get("tag")
                        rec["real_protected_at_entry"] = (v in ei["real_protected"]) if isinstance(ei["real_protected"], list) else ei["real_protected"]
                        left = {stmt_record_code(st) for st in e["tc"].statements()} if id(e["tc"]) in members else set()
                        # statements that carried the assertions on v (other than v's own statement) and are gone as well
                        rec["carrier_statements_removed"] = sorted(c for c in ei["carriers"].get(v, ()) if c != info["code"] and c not in left)
                        rec["only_carried_elsewhere"] = info["code"] not in ei["carriers"].get(v, ())
                    rec["protection_consulted"] = calls["get_assertion_protected_variables"] - self.consulted_at_entry
                    # what became of the statement
                    rec["became"] = next((stmt_record_code(st) for st in e["tc"].statements()
                                          if st.bound_variable is None and info["code"].split("=", 1)[-1].strip() == stmt_record_code(st)), None)
                    S["losses"].append(rec)
                e["alive"] = e["alive"] & now
            S["stack"].pop()
            return False

    def targets_for_case(test_case):
        e = S["tracked"].get(id(test_case))
        return [e] if e is not None and e["tc"] is test_case else []

    def all_targets():
        return list(S["tracked"].values())

    def wrap_case_level(owner, attr, name, get_tc):
        orig = owner.__dict__[attr]

        def wrapper(self, *a, **kw):
            calls[name] += 1
            if not S["active"]:
                return orig(self, *a, **kw)
            with Step(name, targets_for_case(get_tc(self, *a, **kw))):
                return orig(self, *a, **kw)

        setattr(owner, attr, wrapper)

    def wrap_suite_level(owner, attr, name):
        orig = owner.__dict__[attr]

        def wrapper(self, chromosome):
            calls[name] += 1
            if not S["active"]:
                return orig(self, chromosome)
            with Step(name, all_targets()):
                return orig(self, chromosome)

        setattr(owner, attr, wrapper)

    orig_protected = pp.get_assertion_protected_variables

    def get_assertion_protected_variables(test_case):
        if S["active"] and S["stack"]:
            calls["get_assertion_protected_variables"] += 1
        return orig_protected(test_case)

    pp.get_assertion_protected_variables = get_assertion_protected_variables
    wrap_case_level(tcm.TestCase, "remove_unused_variables", "remove_unused_variables", lambda self: self)
    wrap_case_level(pp.UnusedStatementsTestCaseVisitor, "visit_default_test_case", "unused-statements-visitor", lambda self, t: t)
    wrap_case_level(pp.ForwardIterativeMinimizationVisitor, "visit_default_test_case", "iterative-forward", lambda self, t: t)
    wrap_case_level(pp.BackwardIterativeMinimizationVisitor, "visit_default_test_case", "iterative-backward", lambda self, t: t)
    wrap_case_level(pp.ExceptionTruncation, "visit_test_case_chromosome", "exception-truncation", lambda self, ch: ch.test_case)
    wrap_suite_level(pp.TestSuiteMinimizationVisitor, "visit_test_suite_chromosome", "suite-visitor")
    wrap_suite_level(pp.CombinedMinimizationVisitor, "visit_test_suite_chromosome", "combined-visitor")
    wrap_suite_level(pp.EmptyTestCaseRemover, "visit_test_suite_chromosome", "empty-test-remover")

    # ---- coverage from scratch --------------------------------------------------------------------
    def fresh_coverages(suite, algorithm):
        out = {}
        if algorithm is None:
            return out
        stop = config.configuration.stopping
        live = None
        for ffn in algorithm.test_suite_coverage_functions:
            live = getattr(ffn, "_executor", None)
            break
        if live is None:
            return out
        fresh = TestCaseExecutor(live.subject_properties, maximum_test_execution_timeout=stop.maximum_test_execution_timeout,
                                 test_execution_time_per_statement=stop.test_execution_time_per_statement)
        for ffn in algorithm.test_suite_coverage_functions:
            g = copy.copy(ffn)
            g._executor = fresh  # noqa: SLF001
            twin = tsc.TestSuiteChromosome()
            for ch in suite.test_case_chromosomes:
                twin.add_test_case_chromosome(tcc.TestCaseChromosome(test_case=ch.test_case.clone()))
            name = type(ffn).__name__
            try:
                out[name] = g.compute_coverage(twin)
                res = [c.get_last_execution_result() for c in twin.test_case_chromosomes]
                out[name + ":timeouts"] = sum(1 for r in res if r is not None and r.timeout)
                out["name_errors"] = sum(1 for r in res if r is not None for e_ in r.exceptions.values() if isinstance(e_, NameError))
            except BaseException as e:  # noqa: BLE001
                out[name] = f"raised {type(e).__name__}: {e}"
        return out

    orig_check = gen._check_coverage

    def _check_coverage(original_coverages, minimized_coverages):
        calls["_check_coverage"] += 1
        same = orig_check(original_coverages, minimized_coverages)
        S["post_check"] = {"original": list(original_coverages), "minimized": list(minimized_coverages), "same": bool(same)}
        return same

    gen._check_coverage = _check_coverage
    orig_minimize = gen._minimize

    def _minimize(generation_result, algorithm=None):
        calls["_minimize"] += 1
        mcfg = config.configuration.test_case_output
        ev = {"ev": "minimize", "strategy": mcfg.minimization.test_case_minimization_strategy.name,
              "direction": mcfg.minimization.test_case_minimization_direction.name, "post_process": bool(mcfg.post_process)}
        before = []
        S["tracked"] = {}
        for i, ch in enumerate(generation_result.test_case_chromosomes):
            t = ch.test_case
            stmts = test_record(t)
            before.append(stmts)
            asserted = asserted_bindings(stmts)
            S["tracked"][id(t)] = {"tc": t, "index": i, "asserted": asserted, "alive": set(asserted)}
        ev["before"] = before
        ev["cov_before"] = fresh_coverages(generation_result, algorithm)
        # long chains ending in an asserted variable: is the whole chain coverage-redundant (coverage of the suite recomputed from
        # scratch stays equal when the root of the chain is removed together with everything that depends on it)?
        chains = []
        try:
            budget = 10
            for i, ch in enumerate(generation_result.test_case_chromosomes):
                for v, info in chain_info(before[i]).items():
                    if info["len"] < 3:
                        continue
                    rec = {"test": i, "leaf": v, "len": info["len"], "redundant": None}
                    if budget > 0 and algorithm is not None:
                        budget -= 1
                        twin = generation_result.clone()
                        twin.get_test_case_chromosome(i).test_case.remove_statement_with_forward_dependencies(info["root_index"])
                        cov = fresh_coverages(twin, algorithm)
                        keys = [k for k in ev["cov_before"] if not k.endswith(":timeouts")]
                        rec["redundant"] = bool(keys) and all(
                            isinstance(cov.get(k), (int, float)) and isinstance(ev["cov_before"][k], (int, float))
                            and abs(cov[k] - ev["cov_before"][k]) < 1e-12 for k in keys)
                    chains.append(rec)
        except BaseException as e:  # noqa: BLE001
            ev["chains_error"] = f"{type(e).__name__}: {e}"
        ev["chains"] = chains
        S["losses"], S["stack"], S["suite"], S["active"] = [], [], generation_result, True
        S["post_check"] = None
        try:
            return orig_minimize(generation_result, algorithm)
        except BaseException as e:  # noqa: BLE001
            ev["raised"] = f"{type(e).__name__}: {e}"
            raise
        finally:
            S["active"] = False
            # anything lost outside every wrapped step
            members = in_suite_ids()
            by_identity = any(id(ch.test_case) in S["tracked"] for ch in generation_result.test_case_chromosomes)
            ev["identity_preserved"] = by_identity or not generation_result.test_case_chromosomes
            if by_identity:
                for e in S["tracked"].values():
                    now = present(e, members)
                    for v in sorted(e["alive"] - now):
                        info = e["asserted"][v]
                        S["losses"].append({"test": e["index"], "var": v, "code": info["code"], "tag": info["tag"], "step": "outside-wrapped-steps",
                                            "stack": [], "test_removed_from_suite": id(e["tc"]) not in members})
            after = []
            for ch in generation_result.test_case_chromosomes:
                e = S["tracked"].get(id(ch.test_case))
                after.append({"orig_index": e["index"] if e is not None and e["tc"] is ch.test_case else None,
                              "stmts": test_record(ch.test_case)})
            ev["after"] = after
            ev["losses"] = S["losses"]
            ev["post_check"] = S.get("post_check")
            try:
                ev["cov_after"] = fresh_coverages(generation_result, algorithm)
            except BaseException as e:  # noqa: BLE001
                ev["cov_after"] = {"harness_error": f"{type(e).__name__}: {e}"}
            if algorithm is not None and ev["strategy"] != "NONE" and mcfg.post_process and "raised" not in ev:
                cached = {}
                for ffn in algorithm.test_suite_coverage_functions:
                    try:
                        cached[type(ffn).__name__] = generation_result.get_coverage_for(ffn)
                    except BaseException as e:  # noqa: BLE001
                        cached[type(ffn).__name__] = f"raised {type(e).__name__}"
                ev["cached_after"] = cached
            S["tracked"], S["suite"] = {}, None
            events.append(ev)

    gen._minimize = _minimize
    install.calls = calls


def finish(events, spec, out):
    events.append({"ev": "monitor-calls", "monitor": "minimize", **dict(getattr(install, "calls", {}))})
