"""Coverage-report monitor (C35).

Wraps ``pynguin.generator.get_coverage_report`` (the name ``_run`` calls) and records raw observations; the verdict is computed
on the parent side (checks/c35_coverage_report.py):

* the arguments (metrics) and the returned ``CoverageReport``: totals (branches, branch-less code objects, lines), the two
  coverage ratios and every per-line annotation;
* ``registry``: what exists according to the run's SubjectProperties (predicates with line and code object, code objects with
  first line, line ids with line numbers) - raw, so that the parent can apply its own reference definitions;
* ``fresh``: the merged execution trace of the final suite RE-EXECUTED on a new ``TestCaseExecutor`` (clones of the test cases;
  the results attached to the chromosomes are not used): executed code objects, per predicate the minimal true / false
  distance, covered line ids;
* ``attached``: the same summary for the execution results attached to the chromosomes (what the report is built from), to tell
  a wrong formula from a stale execution result;
* every coverage value the pipeline tracks through ``stat.track_output_variable`` (BranchCoverage, LineCoverage,
  FinalBranchCoverage, FinalLineCoverage, ...).

VERIF_BREAK=<name> applies a seeded break from ``BREAKS`` (self-test only).
"""

from __future__ import annotations

import os


# --------------------------------------------------------------------------------------------------------------------
def _break_branchless_twice():
    """Branch-less code objects are counted twice in the report totals (and per line)."""
    import pynguin.utils.report as rep

    orig = rep._get_line_to_branchless_code_object_coverage

    def twice(subject_properties, trace):
        out = orig(subject_properties, trace)
        return {k: v + v for k, v in out.items()}

    rep._get_line_to_branchless_code_object_coverage = twice


def _break_branchless_twice_totals_only():
    """Totals add the branch-less code objects twice, the per-line annotations once."""
    import pynguin.utils.report as rep

    orig = rep.get_coverage_report

    def report(suite, subject_properties, metrics):
        r = orig(suite, subject_properties, metrics)
        r.branchless_code_objects = r.branchless_code_objects + r.branchless_code_objects
        return r

    rep.get_coverage_report = report
    import pynguin.generator as gen

    gen.get_coverage_report = report


def _break_line_ids_as_numbers():
    """The report uses line *ids* where line *numbers* are needed."""
    import pynguin.instrumentation.tracer as tr
    import pynguin.utils.report as rep

    from pynguin.utils.orderedset import OrderedSet

    orig = rep.get_coverage_report

    def report(suite, subject_properties, metrics):
        real = tr.SubjectProperties.lineids_to_linenos
        tr.SubjectProperties.lineids_to_linenos = lambda self, ids: OrderedSet(list(ids))
        try:
            return orig(suite, subject_properties, metrics)
        finally:
            tr.SubjectProperties.lineids_to_linenos = real

    rep.get_coverage_report = report
    import pynguin.generator as gen

    gen.get_coverage_report = report


def _break_stale_result():
    """The report is built from stale execution results: after the export step every chromosome carries the result of an
    earlier execution (here: the result of the first test case), as if the suite had not been re-executed after its last change."""
    import pynguin.generator as gen

    orig = gen._export_chromosome

    def export(chromosome, **kw):
        ret = orig(chromosome, **kw)
        chroms = chromosome.test_case_chromosomes
        if chroms and chroms[0].get_last_execution_result() is not None:
            first = chroms[0].get_last_execution_result()
            for ch in chroms[1:]:
                ch.set_last_execution_result(first)
        return ret

    gen._export_chromosome = export


def _break_false_branch_ignored():
    """Per-line branch annotation forgets the false branch."""
    import pynguin.utils.report as rep

    def line_to_branch(subject_properties, trace):
        out = {}
        for predicate, meta in subject_properties.existing_predicates.items():
            cur = out.get(meta.line_no, rep.CoverageEntry()) + rep.CoverageEntry(existing=2)
            if trace.true_distances.get(predicate) == 0.0:
                cur += rep.CoverageEntry(covered=1)
            out[meta.line_no] = cur
        return out

    rep._get_line_to_branch_coverage = line_to_branch


def _break_line_annotation_either_or():
    """A line annotation takes EITHER the branch-less code objects OR the predicates anchored at the line (elif instead of if)."""
    import pynguin.utils.report as rep

    def ann(lineno, code_object_coverage, predicate_coverage):
        total = rep.CoverageEntry()
        branches = rep.CoverageEntry()
        branchless = rep.CoverageEntry()
        if lineno in code_object_coverage:
            branchless = code_object_coverage[lineno]
            total += branchless
        elif lineno in predicate_coverage:
            branches = predicate_coverage[lineno]
            total += branches
        return rep.LineAnnotation(lineno, total, branches, branchless, rep.CoverageEntry())

    rep._get_line_annotations_for_branch_coverage = ann


def _break_one_code_object_per_line():
    """Only one branch-less code object is remembered per source line (dict assignment instead of +=)."""
    import pynguin.utils.report as rep

    def per_line(subject_properties, trace):
        out = {}
        for code in subject_properties.branch_less_code_objects:
            lineno = subject_properties.existing_code_objects[code].code_object.co_firstlineno
            out[lineno] = rep.CoverageEntry(covered=int(code in trace.executed_code_objects), existing=1)
        return out

    rep._get_line_to_branchless_code_object_coverage = per_line


BREAKS = {
    "line-annotation-either-or": _break_line_annotation_either_or,
    "one-code-object-per-line": _break_one_code_object_per_line,
    "branchless-twice": _break_branchless_twice,
    "branchless-twice-totals-only": _break_branchless_twice_totals_only,
    "line-ids-as-numbers": _break_line_ids_as_numbers,
    "stale-result": _break_stale_result,
    "false-branch-ignored": _break_false_branch_ignored,
}


# --------------------------------------------------------------------------------------------------------------------
def _entry(e):
    return [e.covered, e.existing]


def trace_summary(trace):
    return {
        "executed_code_objects": sorted(trace.executed_code_objects),
        "true_distances": {str(k): v for k, v in trace.true_distances.items()},
        "false_distances": {str(k): v for k, v in trace.false_distances.items()},
        "covered_line_ids": sorted(trace.covered_line_ids),
    }


def registry(sp):
    return {
        "predicates": {str(pid): {"line": m.line_no, "code_object": m.code_object_id} for pid, m in sp.existing_predicates.items()},
        "code_objects": {str(cid): {"first_line": m.code_object.co_firstlineno, "name": m.code_object.co_name,
                                    "file": m.code_object.co_filename} for cid, m in sp.existing_code_objects.items()},
        "lines": {str(lid): {"line": m.line_number, "file": m.file_name} for lid, m in sp.existing_lines.items()},
    }


def install(events, spec):
    import pynguin.configuration as config
    import pynguin.generator as gen
    import pynguin.instrumentation.tracer as tr
    import pynguin.utils.statistics.stats as stat

    from pynguin.testcase.execution import TestCaseExecutor

    for name in filter(None, os.environ.get("VERIF_BREAK", "").split(",")):
        BREAKS[name]()
        events.append({"ev": "seeded-break", "name": name})

    calls = {"get_coverage_report": 0, "track_output_variable": 0}
    tracked: dict = {}
    orig_track = stat.track_output_variable

    def track_output_variable(runtime_variable, value):
        calls["track_output_variable"] += 1
        name = getattr(runtime_variable, "name", str(runtime_variable))
        if "Coverage" in name and isinstance(value, (int, float)):
            tracked[name] = value
        return orig_track(runtime_variable, value)

    stat.track_output_variable = track_output_variable

    orig_report = gen.get_coverage_report

    def get_coverage_report(suite, subject_properties, metrics):
        calls["get_coverage_report"] += 1
        ev = {"ev": "coverage-report", "metrics": sorted(m.name for m in metrics), "tracked": dict(tracked),
              "module": config.configuration.module_name, "tests": suite.size()}
        # ---- attached results (what the report is going to use) -- read BEFORE the call, without touching them
        attached = tr.ExecutionTrace()
        missing = 0
        for ch in suite.test_case_chromosomes:
            r = ch.get_last_execution_result()
            if r is None:
                missing += 1
            else:
                attached.merge(r.execution_trace)
        ev["attached"] = trace_summary(attached)
        ev["attached_missing_results"] = missing
        ev["attached_timeouts"] = sum(1 for ch in suite.test_case_chromosomes
                                      if ch.get_last_execution_result() is not None and ch.get_last_execution_result().timeout)
        try:
            report = orig_report(suite, subject_properties, metrics)
        except BaseException as e:  # noqa: BLE001
            ev["raised"] = f"{type(e).__name__}: {e}"
            events.append(ev)
            raise
        ev["report"] = {
            "module": report.module, "source_lines": len(report.source),
            "branches": _entry(report.branches), "branchless": _entry(report.branchless_code_objects), "lines": _entry(report.lines),
            "branch_coverage": report.branch_coverage, "line_coverage": report.line_coverage,
            "annotations": [[a.line_no, _entry(a.total), _entry(a.branches), _entry(a.branchless_code_objects), _entry(a.lines), a.message()]
                            for a in report.line_annotations],
        }
        ev["registry"] = registry(subject_properties)
        # ---- fresh re-execution of the final suite
        try:
            stop = config.configuration.stopping
            fresh = TestCaseExecutor(subject_properties, maximum_test_execution_timeout=stop.maximum_test_execution_timeout,
                                     test_execution_time_per_statement=stop.test_execution_time_per_statement)
            merged = tr.ExecutionTrace()
            timeouts = 0
            for ch in suite.test_case_chromosomes:
                res = fresh.execute(ch.test_case.clone())
                timeouts += bool(res.timeout)
                merged.merge(res.execution_trace)
            ev["fresh"] = trace_summary(merged)
            ev["fresh_timeouts"] = timeouts
        except BaseException as e:  # noqa: BLE001
            ev["fresh_error"] = f"{type(e).__name__}: {e}"
        events.append(ev)
        return report

    gen.get_coverage_report = get_coverage_report
    install.calls = calls


def finish(events, spec, out):
    events.append({"ev": "monitor-calls", "monitor": "report", **getattr(install, "calls", {})})
