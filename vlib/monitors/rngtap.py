"""RNG tap (C16): logs every draw of ``pynguin.utils.randomness.RNG`` with the pynguin call stack.

``install(events, spec)`` replaces ``randomness.RNG`` by an instance of a subclass of pynguin's own ``Random`` whose
``random()`` and ``getrandbits()`` record, per draw, the id of the interned stack (list of ``file:function`` of the
pynguin frames, innermost first, frames of randomness.py itself removed) and the number of bits requested.  The draw
sequence itself is untouched (both primitives are overridden, so ``_randbelow`` keeps using ``getrandbits`` like the
base class).  ``finish`` appends one event ``{"ev": "rngtap", "stacks": [...], "draws": [...], "bits": [...]}``.

Two logs of runs that should be identical are compared with ``first_divergence(a, b)``: the FIRST index at which the
stack (or the requested bit count) differs names the call site that consumed randomness in a hash-order dependent way.

Environment variables (read in ``install``; used for diagnosis and by the self-test only):
  VERIF_FIX=<name,...>    apply candidate repairs from ``FIXES`` inside this interpreter (monkeypatch, /repo is untouched)
  VERIF_BREAK=<name,...>  apply seeded breaks from ``BREAKS``
"""

from __future__ import annotations

import os
import sys

MAX_DRAWS = 600_000
# a test whose code contains one of these builds a set (a literal, a constructor call, or the corpus function returning a
# set); iterating such a value inside the SUT follows the string hash, which is the SUT's behaviour, not Pynguin's
SET_SOURCES = ("{", "set(", "uniq(")
_STATE: dict = {}


def _site_of(stack: list[str]) -> str:
    """The innermost pynguin frame that is not a thin randomness/collection helper."""
    return stack[0] if stack else "<no-pynguin-frame>"


def install(events, spec):
    from pynguin.utils import randomness

    stacks: dict[tuple, int] = {}
    stack_list: list[list[str]] = []
    draws: list[int] = []
    bits: list[int] = []
    state = {"calls": 0, "truncated": False, "seed_calls": 0}
    getframe = sys._getframe  # noqa: SLF001
    marker = os.sep + "pynguin" + os.sep
    rnd_file = randomness.__file__

    def record(k):
        state["calls"] += 1
        if len(draws) >= MAX_DRAWS:
            state["truncated"] = True
            return
        f = getframe(2)
        key = []
        while f is not None:
            code = f.f_code
            fn = code.co_filename
            if marker in fn and fn != rnd_file:
                key.append(code)
            f = f.f_back
        tkey = tuple(key)
        sid = stacks.get(tkey)
        if sid is None:
            sid = len(stack_list)
            stacks[tkey] = sid
            stack_list.append([f"{os.path.basename(c.co_filename)}:{c.co_qualname}" for c in key])
        draws.append(sid)
        bits.append(k)

    class TapRandom(randomness.Random):
        def random(self):
            record(-1)
            return super().random()

        def getrandbits(self, k):
            record(k)
            return super().getrandbits(k)

        def seed(self, a=None, version=2):
            state["seed_calls"] += 1
            return super().seed(a, version)

    old = randomness.RNG
    tap = TapRandom(old.get_seed())
    randomness.RNG = tap
    execs: list = []
    _STATE.update(stacks=stack_list, draws=draws, bits=bits, state=state, tap=tap, execs=execs)

    # executions: (draw index at entry, test size, timed out) - a timeout flag that differs between two runs which
    # agree on everything before it is a time-dependent decision, not a hash-order one
    import pynguin.testcase.execution as ex

    orig_execute = ex.TestCaseExecutor.execute

    trace_detail = bool(os.environ.get("VERIF_TRACE"))
    import hashlib

    def fingerprint(test_case, result):
        """(test code, hash of the code, hash of what the search can see of the result, that view as text)."""
        try:
            code = test_case.to_code()
        except Exception as e:  # noqa: BLE001
            code = f"<to_code failed {type(e).__name__}>"
        tr = result.execution_trace
        seen = repr((sorted((k, type(v).__name__) for k, v in result.exceptions.items()),
                     sorted(tr.executed_code_objects), sorted(tr.executed_predicates.items()),
                     sorted(tr.true_distances.items()), sorted(tr.false_distances.items()), sorted(tr.covered_line_ids)))
        return code, hashlib.sha1(code.encode()).hexdigest()[:10], hashlib.sha1(seen.encode()).hexdigest()[:10], seen

    def execute(self, test_case):
        # record: [draw index at entry, size, timed out, code hash, result hash, test builds a set, (code, result view)]
        at, size = len(draws), test_case.size()
        result = orig_execute(self, test_case)
        state["exec_calls"] = state.get("exec_calls", 0) + 1
        if len(execs) < MAX_DRAWS:
            code, ch, rh, seen = fingerprint(test_case, result)
            rec = [at, size, 1 if result.timeout else 0, ch, rh, 1 if any(tok in code for tok in SET_SOURCES) else 0]
            if trace_detail and len(execs) < 4000:
                rec += [code, seen[:1500]]
            execs.append(rec)
        return result

    ex.TestCaseExecutor.execute = execute

    # batches run by the subprocess executor (assertion filtering, mutation analysis): [draw index, -number of tests,
    # number of timed-out results, "subprocess", hash of the timeout pattern, number of timed-out NON-EMPTY tests]
    import pynguin.testcase.subprocess_executor as sub

    orig_multiple = sub.SubprocessTestCaseExecutor.execute_multiple

    def execute_multiple(self, test_cases):
        at = len(draws)
        tests = tuple(test_cases)
        results = tuple(orig_multiple(self, tests))
        state["subprocess_batches"] = state.get("subprocess_batches", 0) + 1
        if len(execs) < MAX_DRAWS:
            pattern = "".join("T" if (r is not None and r.timeout) else "." for r in results)
            nonempty_timeouts = sum(1 for t, r in zip(tests, results) if r is not None and r.timeout and t.size() > 0)
            execs.append([at, -len(tests), pattern.count("T"), "subprocess", hashlib.sha1(pattern.encode()).hexdigest()[:10], nonempty_timeouts])
        return results

    sub.SubprocessTestCaseExecutor.execute_multiple = execute_multiple

    for name in [n for n in os.environ.get("VERIF_FIX", "").split(",") if n]:
        FIXES[name]()
        events.append({"ev": "fix-applied", "name": name})
    for name in [n for n in os.environ.get("VERIF_BREAK", "").split(",") if n]:
        BREAKS[name]()
        events.append({"ev": "break-applied", "name": name})


def finish(events, spec, out):
    from pynguin.utils import randomness

    st = _STATE["state"]
    events.append({"ev": "monitor-calls", "monitor": "rngtap", "calls": st["calls"], "seed_calls": st["seed_calls"],
                   "still_installed": randomness.RNG is _STATE["tap"], "truncated": st["truncated"]})
    events[-1]["exec_calls"] = st.get("exec_calls", 0)
    events[-1]["subprocess_batches"] = st.get("subprocess_batches", 0)
    events.append({"ev": "rngtap", "stacks": _STATE["stacks"], "draws": _STATE["draws"], "bits": _STATE["bits"], "execs": _STATE["execs"]})


# ------------------------------------------------------------------------------------------------
# offline comparison (parent side)
# ------------------------------------------------------------------------------------------------
def tap_of(res):
    for ev in res.get("events", []):
        if ev.get("ev") == "rngtap":
            return ev
    return None


def calls_of(res):
    for ev in res.get("events", []):
        if ev.get("ev") == "monitor-calls" and ev.get("monitor") == "rngtap":
            return ev
    return None


_THIN = {
    "collection_utils.py", "orderedset.py",
}


def site_name(stack):
    """Mechanism name of a draw: the innermost pynguin frame (file:qualname), skipping comprehension/lambda frames
    and thin helper modules, so that the name is the function a maintainer would edit."""
    for fr in stack:
        fname, _, qual = fr.partition(":")
        if fname in _THIN:
            continue
        qual = qual.replace(".<locals>", "")
        parts = [p for p in qual.split(".") if p not in ("<listcomp>", "<genexpr>", "<lambda>", "<setcomp>", "<dictcomp>")]
        return f"{fname}:{'.'.join(parts[-2:]) if parts else qual}"
    return "<no-pynguin-frame>"


def first_divergence(a, b):
    """Returns None if both logs are identical, else a dict describing the first diverging draw."""
    da, db = a["draws"], b["draws"]
    sa, sb = a["stacks"], b["stacks"]
    ba, bb = a["bits"], b["bits"]
    n = min(len(da), len(db))
    for i in range(n):
        if ba[i] != bb[i] or sa[da[i]] != sb[db[i]]:
            return {
                "index": i,
                "site_a": site_name(sa[da[i]]), "site_b": site_name(sb[db[i]]),
                "stack_a": sa[da[i]], "stack_b": sb[db[i]],
                "bits_a": ba[i], "bits_b": bb[i],
                "prev_stack": sa[da[i - 1]] if i else None,
                "len_a": len(da), "len_b": len(db),
            }
    if len(da) != len(db):
        longer, sl = (da, sa) if len(da) > len(db) else (db, sb)
        return {"index": n, "site_a": site_name(sl[longer[n]]), "site_b": "<end-of-log>", "stack_a": sl[longer[n]], "stack_b": [],
                "bits_a": None, "bits_b": None, "prev_stack": sa[da[n - 1]] if n else None, "len_a": len(da), "len_b": len(db)}
    return None


def first_exec_divergence(a, b):
    """First execution record that differs: {"index", "a": [draw_index, size, timeout], "b": [...]} or None."""
    ea, eb = a.get("execs", []), b.get("execs", [])
    for i in range(min(len(ea), len(eb))):
        if ea[i] != eb[i]:
            return {"index": i, "a": ea[i], "b": eb[i]}
    if len(ea) != len(eb):
        n = min(len(ea), len(eb))
        return {"index": n, "a": ea[n] if len(ea) > n else None, "b": eb[n] if len(eb) > n else None}
    return None


def divergence_site(d):
    """The function in which the two runs parted: the diverging draw's own site when both runs draw from the same
    function; the site of the last common draw when one of the runs continues there (a loop that runs longer in one
    run); otherwise the deepest caller frame the two stacks share."""
    if d["site_a"] == d["site_b"]:
        return d["site_a"]
    prev = site_name(d["prev_stack"]) if d.get("prev_stack") else None
    if prev is not None and prev in (d["site_a"], d["site_b"]):
        return prev
    sa, sb = list(reversed(d["stack_a"])), list(reversed(d["stack_b"]))
    common = []
    for x, y in zip(sa, sb):
        if x != y:
            break
        common.append(x)
    return site_name(list(reversed(common))) if common else "|".join(sorted((d["site_a"], d["site_b"])))


def line_construct(line):
    """Coarse syntactic class of a line of a generated test file (for output-order keys)."""
    t = line.strip()
    if t.startswith(("import ", "from ")):
        return "import"
    if t.startswith("@"):
        return "decorator"
    if t.startswith("def "):
        return "test-function"
    if t.startswith("assert "):
        return "assert:" + ("set-or-dict-literal" if "{" in t else "isinstance" if "isinstance" in t else "approx" if "approx" in t else "other")
    if t.startswith("with "):
        return "with-raises"
    if t.startswith("#") or not t:
        return "comment-or-blank"
    if "{" in t:
        return "statement:set-or-dict-literal"
    return "statement"


def first_output_difference(files_a, files_b):
    names = sorted(set(files_a) | set(files_b))
    for n in names:
        x, y = files_a.get(n), files_b.get(n)
        if x == y:
            continue
        if x is None or y is None:
            return {"file": n, "construct": "file-missing", "line_a": None, "line_b": None, "lineno": 0}
        la, lb = x.splitlines(), y.splitlines()
        for i in range(max(len(la), len(lb))):
            p, q = (la[i] if i < len(la) else None), (lb[i] if i < len(lb) else None)
            if p != q:
                c = line_construct(p if p is not None else q)
                if p is not None and q is not None and line_construct(q) != c:
                    c = "|".join(sorted((c, line_construct(q))))
                return {"file": n, "construct": c, "line_a": p, "line_b": q, "lineno": i + 1}
        return {"file": n, "construct": "trailing-bytes", "line_a": None, "line_b": None, "lineno": 0}
    return None


def test_files(res):
    """The exported test files of a run (the observable of the property)."""
    return {k: v for k, v in (res.get("files") or {}).items() if k.endswith(".py")}


def diagnose(res_a, res_b):
    """Compare two finished runs of the same spec.  Returns {"kind": ..., "key": ..., ...}:
      same                 files, draw logs and execution logs identical
      timing               the same test, entered after the same draws, timed out in one run only
      sut-hash-order       the same test (building a set) produced a different trace: the SUT's own iteration order
      exec-result          the same test (no set anywhere) produced a different trace
      generation           a different test was executed although all draws before were identical
      draws                first diverging draw names the site
      output-only          logs identical, files differ
    "files_same" tells whether the property's observable differs at all."""
    ta, tb = tap_of(res_a), tap_of(res_b)
    fa, fb = test_files(res_a), test_files(res_b)
    out = {"files_same": fa == fb}
    d = first_divergence(ta, tb)
    e = first_exec_divergence(ta, tb)
    out["draw_divergence"] = None if d is None else {k: d[k] for k in ("index", "site_a", "site_b", "len_a", "len_b", "bits_a", "bits_b")}
    out["exec_divergence"] = None if e is None else {"index": e["index"], "a": (e["a"] or [])[:6], "b": (e["b"] or [])[:6]}
    if out["files_same"] and d is None and e is None:
        out.update(kind="same", key=None)
        return out
    if e and e["a"] and e["b"] and e["a"][0] == e["b"][0] and (d is None or e["a"][0] <= d["index"]):
        A, B = e["a"], e["b"]
        if "subprocess" in (A[3], B[3]):
            # a batch of the subprocess executor (assertion filtering / mutation analysis).  After a timeout the executor
            # falls back to smaller batches, so a timeout shows up as another timeout count or another batch shape.
            if (A[2] or B[2]) and A[5] == 0 and B[5] == 0 and A[1] == B[1]:
                # every timed-out test of the batch is an EMPTY test case: the join(timeout=0) race, not machine load
                out.update(kind="timing", key="timing:timeout-flag-differs:empty-test")
            elif A[2] or B[2]:
                out.update(kind="timing", key="timing:subprocess-batch-timeout:nonempty-test")
            else:
                out.update(kind="generation", key="subprocess-batch-differs-without-timeout")
            return out
        if len(A) > 6:
            out["exec_detail"] = {"code_a": A[6], "seen_a": A[7], "code_b": B[6] if len(B) > 6 else None, "seen_b": B[7] if len(B) > 7 else None}
        if A[1] == B[1] and A[3] == B[3]:
            if A[2] != B[2]:
                out.update(kind="timing", key=f"timing:timeout-flag-differs:{'empty-test' if A[1] == 0 else 'nonempty-test'}")
                return out
            if A[4] != B[4]:
                if A[5]:
                    out.update(kind="sut-hash-order", key="sut-hash-order:test-builds-a-set")
                else:
                    out.update(kind="exec-result", key="exec-result-differs:same-test-code")
                return out
        else:
            k = A[0]
            before = site_name(ta["stacks"][ta["draws"][k - 1]]) if k else "<before-first-draw>"
            out.update(kind="generation", key=f"same-draws-different-test:{before}")
            return out
    if d is not None:
        out.update(kind="draws", key=f"diverges-at:{divergence_site(d)}", stack_a=d["stack_a"][:10], stack_b=d["stack_b"][:10])
        return out
    fo = first_output_difference(fa, fb)
    out["output_difference"] = fo
    if fo is None:
        out.update(kind="exec-only", key="executions-differ-after-last-draw")
    else:
        out.update(kind="output-only", key=f"output-order:{fo['construct']}")
    return out


# ------------------------------------------------------------------------------------------------
# candidate repairs (diagnosis: applied one after the other to expose the next divergence source)
# ------------------------------------------------------------------------------------------------
FIXES: dict = {}
BREAKS: dict = {}


def fix(name):
    def deco(fn):
        FIXES[name] = fn
        return fn
    return deco


@fix("reproduce")
def _fix_reproduce():
    """No change at all: the pair is simply run again (is the divergence reproducible?)."""


def brk(name):
    def deco(fn):
        BREAKS[name] = fn
        return fn
    return deco


@fix("resolve-head-sorted")
def _fix_resolve_head_sorted():
    """testcase.py TestCase._resolve_head_references: iterate sorted(stmt.used_variables())."""
    import pynguin.testcase.testcase as tc
    from pynguin.utils import randomness

    def _resolve_head_references(self, stmt, head_types, rename, dropped):
        for name in sorted(stmt.used_variables()):
            if name in dropped:
                return False
            if name in rename:
                continue
            if name in head_types:
                head_type = head_types[name]
                candidates = self.variables_of_type(head_type) if head_type is not None else []
                if not candidates:
                    return False
                rename[name] = randomness.choice(candidates)
        return True

    tc.TestCase._resolve_head_references = _resolve_head_references  # noqa: SLF001


@fix("empty-test-timeout")
def _fix_empty_test_timeout():
    """execution.py TestCaseExecutor.execute: thread.join(timeout=min(max, per_statement * size)) is join(0) for an
    empty test case, a race between the worker thread and is_alive(); repair = at least one statement's worth."""
    import threading
    import types

    import pynguin.testcase.execution as ex

    class Thread(threading.Thread):
        def join(self, timeout=None):
            if timeout == 0:
                timeout = 1
            return super().join(timeout)

    class Shim(types.ModuleType):
        def __getattr__(self, name):
            return getattr(threading, name)

    shim = Shim("threading_shim")
    shim.Thread = Thread
    ex.threading = shim


# ------------------------------------------------------------------------------------------------
# seeded breaks (self-test of C16)
# ------------------------------------------------------------------------------------------------
@brk("unseeded-random-in-mutation")
def _break_unseeded_random():
    """A mutation operator that consults a generator seeded from the OS instead of randomness.RNG."""
    import random

    import pynguin.ga.operators.mutation as mut

    own = random.Random()  # noqa: S311 - seeded from os.urandom: differs between any two interpreters
    orig = mut.TestCaseMutation.mutate

    def mutate(self, chromosome):
        if own.random() < 0.25:
            chromosome._mutation_insert()  # noqa: SLF001
        return orig(self, chromosome)

    mut.TestCaseMutation.mutate = mutate


@brk("export-iterates-str-set")
def _break_export_set():
    """The export path builds the 'from <sut> import <names>' line from a set of str instead of a sorted list."""
    import pynguin.testcase.export as export

    def _public_sut_names(module, module_alias):
        return list({name for name in dir(module) if not name.startswith("_") and name != module_alias})

    export._public_sut_names = _public_sut_names  # noqa: SLF001


@brk("variables-of-type-via-set")
def _break_variables_via_set():
    """TestCase.variables_of_type de-duplicates through a set of str: same number of draws, another variable chosen."""
    import pynguin.testcase.testcase as tc

    orig = tc.TestCase.variables_of_type

    def variables_of_type(self, *a, **kw):
        return list(set(orig(self, *a, **kw)))

    tc.TestCase.variables_of_type = variables_of_type


@brk("time-dependent-decision")
def _break_time_dependent():
    """A decision of the search taken on the wall clock although the budget is not a time budget."""
    import time

    import pynguin.ga.operators.mutation as mut

    orig = mut.TestCaseMutation.mutate

    def mutate(self, chromosome):
        if time.time_ns() // 1000 % 4 == 0:
            chromosome._mutation_insert()  # noqa: SLF001
        return orig(self, chromosome)

    mut.TestCaseMutation.mutate = mutate
