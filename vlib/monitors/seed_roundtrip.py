"""Export -> seed parser -> export round trip inside the driver child (C24).

``install`` wraps ``pynguin.generator._generate_assertions`` (to get hold of the run's real test cluster and executor) and
``_export_chromosome`` (to learn the writer settings of the run: ``sut_uses_random``, ``subject_properties``), and
``CstStatementDeserializer.deserialize_function`` (to record, per parsed function, its name, the size of the resulting
test case and the disposition counts — this gives the F1-function -> parsed-test mapping, because
``parse_seed_module`` silently skips functions that yield an empty test case).

``finish`` (after ``run_pynguin`` returned): the file F1 the run wrote is parsed with the *real* seeding entry point
``InitialPopulationProvider(cluster, TestFactory(cluster)).collect_testcases(<output dir>)`` (``initial_population_mutations``
forced to 0, so that the parsed test cases are not mutated), the parsed test cases are wrapped in a fresh
TestSuiteChromosome and written with the real ``TestSuiteWriter`` using the settings of the run into ``<output>/roundtrip``.
The event ``roundtrip`` carries F1, F2 and the per-function parse log; the comparison happens on the parent side
(checks/c24_seed_roundtrip.py).
"""

from __future__ import annotations

import traceback

from pathlib import Path

_STATE: dict = {}


def install(events, spec):
    from vlib.monitors import genfile_breaks

    genfile_breaks.apply(events)

    import pynguin.generator as gen
    import pynguin.large_language_model.parsing.deserializer as de

    calls = {"_generate_assertions": 0, "_export_chromosome": 0, "deserialize_function": 0, "collect_testcases": 0, "write_f2": 0}
    _STATE["calls"] = calls
    _STATE["parse_log"] = []

    orig_gen, orig_exp = gen._generate_assertions, gen._export_chromosome

    def generate_assertions(executor, generation_result, test_cluster):
        calls["_generate_assertions"] += 1
        _STATE["cluster"] = test_cluster
        _STATE["executor"] = executor
        return orig_gen(executor, generation_result, test_cluster)

    def export_chromosome(chromosome, **kw):
        calls["_export_chromosome"] += 1
        _STATE["export_kw"] = dict(kw)
        return orig_exp(chromosome, **kw)

    gen._generate_assertions = generate_assertions
    gen._export_chromosome = export_chromosome

    orig_des = de.CstStatementDeserializer.deserialize_function

    def deserialize_function(self, fn):
        calls["deserialize_function"] += 1
        res = orig_des(self, fn)
        try:
            _STATE["parse_log"].append({"name": fn.name.value, "size": res.test_case.size(),
                                        "counts": {k.value: v for k, v in res.counts.items() if v},
                                        "assertions": len(res.test_case.get_assertions())})
        except Exception as e:  # noqa: BLE001
            _STATE["parse_log"].append({"name": getattr(getattr(fn, "name", None), "value", "?"), "size": -1, "error": repr(e)})
        return res

    de.CstStatementDeserializer.deserialize_function = deserialize_function
    events.append({"ev": "monitor-calls", "monitor": "seed_roundtrip", "calls": calls})


def finish(events, spec, out):
    import pynguin.configuration as config
    import pynguin.ga.testcasechromosome as tcc
    import pynguin.ga.testsuitechromosome as tsc
    import pynguin.testcase.export as export
    import pynguin.testcase.testfactory as tf

    from pynguin.analyses.seeding import InitialPopulationProvider

    cfg = config.configuration
    calls = _STATE["calls"]
    outdir = Path(spec["output_path"])
    mod_part = spec["module"].rsplit(".", 1)[-1]
    f1 = outdir / f"test_{mod_part}.py"
    ev = {"ev": "roundtrip", "f1": None, "f2": None, "parse_log": _STATE["parse_log"], "phase_error": None}
    events.append(ev)
    if not f1.exists():
        ev["phase_error"] = {"phase": "no-f1", "error": "the run wrote no test file"}
        return
    ev["f1"] = f1.read_text()
    cluster = _STATE.get("cluster")
    if cluster is None or "export_kw" not in _STATE:
        ev["phase_error"] = {"phase": "harness", "error": "cluster / export settings were not observed"}
        return
    # ---- parse F1 with the real seeding entry point
    saved = cfg.seeding.initial_population_mutations
    cfg.seeding.initial_population_mutations = 0
    try:
        provider = InitialPopulationProvider(cluster, tf.TestFactory(cluster))
        calls["collect_testcases"] += 1
        provider.collect_testcases(str(outdir))
        tests = list(provider._testcases)  # noqa: SLF001
    except Exception as e:  # noqa: BLE001
        ev["phase_error"] = {"phase": "parse", "error": f"{type(e).__name__}: {e}"[:300], "tb": traceback.format_exc()[-1200:]}
        return
    finally:
        cfg.seeding.initial_population_mutations = saved
    ev["parsed_tests"] = len(tests)
    ev["parsed"] = [{"stmts": t.size(), "assertions": len(t.get_assertions())} for t in tests]
    # ---- export F2 with the same writer settings
    suite = tsc.TestSuiteChromosome()
    for t in tests:
        suite.add_test_case_chromosome(tcc.TestCaseChromosome(t))
    kw = _STATE["export_kw"]
    try:
        calls["write_f2"] += 1
        writer = export.TestSuiteWriter(no_xfail=cfg.test_case_output.no_xfail)
        f2 = writer.write(
            suite,
            cfg.module_name,
            outdir / "roundtrip",
            project_path=cfg.project_path,
            format_with_black=cfg.test_case_output.format_with_black,
            seed=cfg.seeding.seed if kw.get("sut_uses_random") else None,
            subject_properties=kw.get("subject_properties"),
        )
        ev["f2"] = Path(f2).read_text()
    except Exception as e:  # noqa: BLE001
        ev["phase_error"] = {"phase": "export", "error": f"{type(e).__name__}: {e}"[:300], "tb": traceback.format_exc()[-1200:]}
