"""Independent post-dominator / control-dependence computation (iterative data flow, no networkx
dominance functions).  Works on plain adjacency dicts: succ[node] -> list[(target, label)].
"""

from __future__ import annotations


def postdominators(nodes, succ, exit_node):
    """pdom[n] = set of nodes that post-dominate n (reflexive).  Nodes that cannot reach exit keep the
    full set minus nothing (caller checks reachability separately)."""
    nodes = list(nodes)
    full = set(nodes)
    pdom = {n: set(full) for n in nodes}
    pdom[exit_node] = {exit_node}
    changed = True
    while changed:
        changed = False
        for n in nodes:
            if n == exit_node:
                continue
            ss = [t for t, _ in succ.get(n, [])]
            if ss:
                new = set.intersection(*(pdom[s] for s in ss)) | {n}
            else:
                new = {n}
            if new != pdom[n]:
                pdom[n] = new
                changed = True
    return pdom


def ferrante_edges(nodes, succ, exit_node):
    """{(A, B): set(labels)} : B is control dependent on edge (A,S,label) iff
    B post-dominates S and B does not strictly post-dominate A."""
    pdom = postdominators(nodes, succ, exit_node)
    out: dict[tuple, set] = {}
    for a in nodes:
        for s, label in succ.get(a, []):
            for b in pdom[s]:
                if b in pdom[a] and b != a:
                    continue  # b strictly post-dominates a
                out.setdefault((a, b), set()).add(label)
    return out, pdom


def reachable(start, succ):
    seen, stack = {start}, [start]
    while stack:
        n = stack.pop()
        for t, _ in succ.get(n, []):
            if t not in seen:
                seen.add(t)
                stack.append(t)
    return seen
