"""Seeded generator of small, terminating Python programs (modules) for the instrumentation checks.

Every module has a fixed prelude (helpers, a context manager, a class, a generator, a closure factory)
and k generated target functions.  Two kinds of targets:

* typed   f(a, b, s, l)  — a, b numbers; s str; l list of ints.  Rich control flow, total operations.
* untyped g(u, v)        — only comparisons / truthiness / membership on arbitrary values (adversarial
                           value corpus), exceptions propagate.

Generation is pure: (seed, index) -> source text + the call plan.  Termination by construction:
`while` loops count a fuel variable down, `for` loops range over bounded ranges or finite lists.
"""

from __future__ import annotations

import random

PRELUDE = '''\
import math

GLOBAL_COUNTER = [0]
GLOBAL_FLAG = 0


class CM:
    """trivial context manager; swallow=True suppresses ValueError"""

    def __init__(self, swallow=False):
        self.swallow = swallow
        self.log = []

    def __enter__(self):
        self.log.append("enter")
        return self

    def __exit__(self, et, ev, tb):
        self.log.append("exit")
        return bool(self.swallow and et is not None and issubclass(et, ValueError))


class Acc:
    kind = "acc"

    def __init__(self, start=0):
        self.total = start
        self.items = []

    def add(self, x):
        if x is None:
            return self
        self.total += x
        self.items.append(x)
        return self

    def big(self):
        return self.total > 10

    @property
    def size(self):
        return len(self.items)

    @staticmethod
    def twice(x):
        return x * 2


def raiser(x):
    if x % 3 == 0:
        raise ValueError("mult of 3")
    if x % 7 == 0:
        raise KeyError(x)
    return x + 1


def helper(x, y=1):
    if x > y:
        return x - y
    return y - x


def gen_upto(n):
    i = 0
    while i < n:
        yield i
        i += 1


def make_adder(k):
    def adder(z):
        return z + k

    return adder


pick = lambda p, q: p if p else q  # noqa: E731
'''


class _Gen:
    def __init__(self, rng: random.Random):
        self.rng = rng
        self.lines: list[str] = []
        self.tmp = 0
        self.features: set[str] = set()

    # ---- expressions over the typed environment ------------------------------------
    def int_expr(self, depth=0):
        r = self.rng
        atoms = ["a", "b", "x", "y", "len(l)", "len(s)", str(r.randint(-3, 9)), "n"]
        if depth > 1 or r.random() < 0.45:
            return r.choice(atoms)
        k = r.random()
        if k < 0.35:
            if r.random() < 0.25:
                return f"({self.int_expr(depth + 1)} * {r.randint(-2, 3)})"  # never var*var: repeated squaring in loops explodes
            return f"({self.int_expr(depth + 1)} {r.choice(['+', '-'])} {self.int_expr(depth + 1)})"
        if k < 0.5:
            return f"({self.int_expr(depth + 1)} % {r.randint(2, 7)})"
        if k < 0.6:
            return f"helper({self.int_expr(depth + 1)}, {self.int_expr(depth + 1)})"
        if k < 0.68:
            return f"abs({self.int_expr(depth + 1)})"
        if k < 0.76:
            return f"({self.int_expr(depth + 1)} if {self.cond(depth + 1)} else {self.int_expr(depth + 1)})"
        if k < 0.82:
            self.features.add("lambda")
            return f"pick({self.int_expr(depth + 1)}, {self.int_expr(depth + 1)})"
        if k < 0.88:
            self.features.add("closure")
            return f"make_adder({r.randint(0, 3)})({self.int_expr(depth + 1)})"
        if k < 0.94:
            return f"Acc.twice({self.int_expr(depth + 1)})"
        return f"min({self.int_expr(depth + 1)}, {self.int_expr(depth + 1)})"

    def cond(self, depth=0):
        r = self.rng
        k = r.random()
        if depth > 2:
            k = r.random() * 0.5
        if k < 0.3:
            return f"{self.int_expr(depth + 1)} {r.choice(['<', '<=', '>', '>=', '==', '!='])} {self.int_expr(depth + 1)}"
        if k < 0.36:
            self.features.add("chained-compare")
            return f"{r.randint(-2, 2)} {r.choice(['<', '<='])} {self.int_expr(depth + 1)} {r.choice(['<', '<=', '!='])} {self.int_expr(depth + 1)}"
        if k < 0.42:
            self.features.add("is-none")
            return r.choice(["opt is None", "opt is not None"])
        if k < 0.5:
            self.features.add("in")
            return r.choice([f"{self.int_expr(depth + 1)} in l", f"{self.int_expr(depth + 1)} not in l", "'a' in s", "s in ('', 'abc', 'x')",
                             f"{self.int_expr(depth + 1)} in (1, 2, 3)", f"{self.int_expr(depth + 1)} in {{0: 'z', 4: 'w'}}"])
        if k < 0.58:
            self.features.add("str-method")
            return r.choice(["s.startswith('a')", "s.endswith('c')", "s.startswith(('a', 'b'))", "s.endswith(('c', 'x'))", "s.isalnum()",
                             "s.isdigit()", "s.lower() == 'abc'", "s == 'abc'", "s < 'b'", "s.strip()"])
        if k < 0.64:
            return r.choice(["l", "not l", "s", "not s", "a", "not b", "acc.big()", "acc.size"])
        if k < 0.8:
            self.features.add("boolop")
            return f"({self.cond(depth + 1)} {r.choice(['and', 'or'])} {self.cond(depth + 1)})"
        if k < 0.86:
            return f"not ({self.cond(depth + 1)})"
        if k < 0.92:
            return r.choice(["isinstance(a, int)", "isinstance(a, float)", "callable(pick)", "GLOBAL_FLAG", "GLOBAL_COUNTER[0] > 2"])
        return f"{self.int_expr(depth + 1)} {r.choice(['<', '=='])} {self.int_expr(depth + 1)}"

    # ---- statements -------------------------------------------------------------------
    def emit(self, ind, text):
        self.lines.append("    " * ind + text)

    def block(self, ind, depth, in_loop=False, n=None):
        r = self.rng
        for _ in range(n if n is not None else r.randint(1, 2)):
            self.stmt(ind, depth, in_loop)

    def stmt(self, ind, depth, in_loop=False):
        r = self.rng
        k = r.random()
        if depth >= 3 or (depth == 2 and r.random() < 0.6):
            k = r.random() * 0.3
        if k < 0.16:
            self.emit(ind, f"{r.choice(['x', 'y'])} = {self.int_expr()}")
        elif k < 0.22:
            if r.random() < 0.2:
                self.emit(ind, f"{r.choice(['x', 'y'])} *= {r.choice([2, 3, -1])}")
            else:
                self.emit(ind, f"{r.choice(['x', 'y'])} {r.choice(['+=', '-='])} {self.int_expr(1)}")
        elif k < 0.26:
            self.emit(ind, r.choice(["acc.add(x)", "acc.add(y).add(1)", "out.append(x)", "GLOBAL_COUNTER[0] += 1", "print('v', x)", "opt = None",
                                     "opt = x", "res[y % 3] = x", "acc.total = y"]))
            self.features.add("side-effect")
        elif k < 0.42:
            self.features.add("if")
            self.emit(ind, f"if {self.cond()}:")
            self.block(ind + 1, depth + 1, in_loop)
            while r.random() < 0.3:
                self.features.add("elif")
                self.emit(ind, f"elif {self.cond()}:")
                self.block(ind + 1, depth + 1, in_loop)
            if r.random() < 0.5:
                self.emit(ind, "else:")
                self.block(ind + 1, depth + 1, in_loop)
        elif k < 0.5:
            self.features.add("while")
            self.tmp += 1
            fuel = f"fuel{self.tmp}"  # one fuel variable per loop: nested loops must not reset each other
            self.emit(ind, f"{fuel} = min(abs({self.int_expr(1)}), {r.randint(1, 4)})")
            self.emit(ind, f"while {fuel} > 0{' and ' + self.cond(2) if r.random() < 0.3 else ''}:")
            self.emit(ind + 1, f"{fuel} -= 1")
            self.emit(ind + 1, "n += 1")
            self.block(ind + 1, depth + 1, True)
            if r.random() < 0.3:
                self.features.add("loop-else")
                self.emit(ind, "else:")
                self.block(ind + 1, depth + 1, in_loop, 1)
        elif k < 0.6:
            self.features.add("for")
            it = r.choice([f"range({r.randint(0, 4)})", "range(min(abs(a), 3))", "l", "gen_upto(min(abs(b), 3))", "enumerate(l)", "s[:3]", "sorted(set(l))"])
            var = "i, e" if it == "enumerate(l)" else ("ch" if it == "s[:3]" else "i")
            if it.startswith("gen_upto"):
                self.features.add("generator")
            self.emit(ind, f"for {var} in {it}:")
            if var == "i" and it != "s[:3]":
                self.emit(ind + 1, "x += i if isinstance(i, int) else 1")
            self.block(ind + 1, depth + 1, True)
            if r.random() < 0.3:
                self.features.add("loop-else")
                self.emit(ind, "else:")
                self.block(ind + 1, depth + 1, in_loop, 1)
        elif k < 0.64 and in_loop:
            self.features.add("break-continue")
            self.emit(ind, f"if {self.cond(1)}:")
            self.emit(ind + 1, r.choice(["break", "continue"]))
        elif k < 0.74:
            self.features.add("try")
            self.emit(ind, "try:")
            self.emit(ind + 1, f"y = raiser({self.int_expr(1)})")
            self.block(ind + 1, depth + 1, in_loop, 1)
            style = r.random()
            if style < 0.8:
                self.emit(ind, f"except {r.choice(['ValueError', 'KeyError', '(ValueError, KeyError)', 'Exception', 'LookupError'])}{r.choice(['', ' as exc'])}:")
                if in_loop and r.random() < 0.3:
                    self.features.add("except-only-jump")
                    self.emit(ind + 1, r.choice(["continue", "break"]))  # handler body that is only a jump (dead cleanup blocks)
                else:
                    self.block(ind + 1, depth + 1, in_loop, 1)
                if r.random() < 0.3:
                    self.emit(ind, "except KeyError:")
                    self.emit(ind + 1, "x -= 1")
                if r.random() < 0.3:
                    self.features.add("try-else")
                    self.emit(ind, "else:")
                    self.block(ind + 1, depth + 1, in_loop, 1)
            if style >= 0.8 or r.random() < 0.35:
                self.features.add("try-finally")
                self.emit(ind, "finally:")
                self.emit(ind + 1, "acc.add(1)")
        elif k < 0.8:
            self.features.add("with")
            self.emit(ind, f"with CM({r.choice(['', 'True', 'swallow=False'])}) as cm:")
            if r.random() < 0.5:
                self.emit(ind + 1, f"y = raiser({self.int_expr(1)})")
            self.block(ind + 1, depth + 1, in_loop, 1)
        elif k < 0.86:
            self.features.add("comprehension")
            self.emit(ind, r.choice([
                f"out = [i * 2 for i in range(min(abs({self.int_expr(1)}), 4)) if i % 2 == {r.randint(0, 1)}]",
                "res = {i: i + a for i in l if i > b}",
                "x = sum(i for i in l if i != a)",
                "out = [ch for ch in s if ch != 'b']",
                "y = len({i % 3 for i in l})",
                "out = [i + j for i in range(2) for j in range(min(abs(a), 2))]",
                "x = max([e for e in l if e < a] or [0])",
                "opt = next((i for i in l if i > a), None)",
            ]))
        elif k < 0.91:
            self.features.add("match")
            subj = r.choice(["x % 4", "l[:2]", "s[:1]", "(a > 0, b > 0)"])
            self.emit(ind, f"match {subj}:")
            if subj == "x % 4":
                cases = ["case 0:", "case 1 | 2:", "case _:"]
            elif subj == "l[:2]":
                cases = ["case []:", "case [only]:", "case [p, q] if p < q:", "case _:"]
            elif subj == "s[:1]":
                cases = ["case 'a':", "case '':", "case _:"]
            else:
                cases = ["case (True, True):", "case (True, _):", "case _:"]
            for c in cases:
                self.emit(ind + 1, c)
                self.block(ind + 2, depth + 2, in_loop, 1)
        elif k < 0.95:
            self.features.add("early-return")
            self.emit(ind, f"if {self.cond(1)}:")
            self.emit(ind + 1, f"return {r.choice(['x', 'y', '(x, y)', 'out', 'None', 'acc.total', 'str(x) + s'])}")
        elif k < 0.98:
            self.features.add("assert")
            self.emit(ind, f"assert {self.cond(1)}, 'boom'")
        else:
            self.features.add("nested-def")
            self.emit(ind, "def inner(q):")
            self.emit(ind + 1, f"if q > {r.randint(0, 3)}:")
            self.emit(ind + 2, "return q + x")
            self.emit(ind + 1, "return y")
            self.emit(ind, f"x = inner({self.int_expr(1)})")

    def typed_function(self, name):
        self.emit(0, f"def {name}(a, b, s, l):")
        self.emit(1, "x = 0")
        self.emit(1, "y = 1")
        self.emit(1, "n = 0")
        self.emit(1, "opt = None")
        self.emit(1, "out = []")
        self.emit(1, "res = {}")
        self.emit(1, "acc = Acc()")
        self.block(1, 0, False, self.rng.randint(2, 4))
        self.emit(1, "return (x, y, acc.total, out, sorted(res.items()), opt)")
        self.emit(0, "")
        self.emit(0, "")

    def untyped_function(self, name):
        r = self.rng
        self.emit(0, f"def {name}(u, v):")
        self.emit(1, "r = []")
        ops = ["<", "<=", ">", ">=", "==", "!=", "in", "not in", "is", "is not"]
        for i in range(r.randint(1, 4)):
            style = r.random()
            if style < 0.55:
                op = r.choice(ops)
                cond = f"u {op} v" if r.random() < 0.8 else f"v {op} u"
            elif style < 0.7:
                cond = r.choice(["u", "not v", "u and v", "u or v"])
            elif style < 0.8:
                cond = f"u {r.choice(ops[:6])} v {r.choice(ops[:6])} u"
            else:
                cond = r.choice(["u is None", "v is not None", "isinstance(u, str) and u.startswith(v)", "isinstance(u, str) and u.endswith(v)"])
            if r.random() < 0.3:
                self.features.add("compare-in-try")
                self.emit(1, "try:")
                self.emit(2, f"if {cond}:")
                self.emit(3, f"r.append({i})")
                self.emit(2, "else:")
                self.emit(3, f"r.append(-{i + 1})")
                self.emit(1, f"except {r.choice(['TypeError', 'Exception', '(TypeError, ValueError)'])}:")
                self.emit(2, "r.append('exc')")
            elif r.random() < 0.25:
                self.features.add("compare-in-while")
                self.emit(1, "k = 2")
                self.emit(1, f"while k > 0 and ({cond}):")
                self.emit(2, "k -= 1")
                self.emit(2, f"r.append({i})")
            else:
                self.emit(1, f"if {cond}:")
                self.emit(2, f"r.append({i})")
                if r.random() < 0.5:
                    self.emit(1, "else:")
                    self.emit(2, f"r.append(-{i + 1})")
        self.emit(1, "return r")
        self.emit(0, "")
        self.emit(0, "")


def typed_args(rng: random.Random):
    def num():
        return rng.choice([0, 1, -1, 2, 3, 5, 7, 9, -4, 12, 21, rng.randint(-20, 20), 2.5, -0.5, 2**53 + 1, True])

    def st():
        return rng.choice(["", "a", "abc", "abd", "b", "xyz", "a1", "123", " c", "ABC", "aXc"])

    def lst():
        return rng.choice([[], [1], [1, 2, 3], [3, 1, 2], [0, 0], [5, -1, 7, 2], [2, 4], list(range(rng.randint(0, 5)))])

    return (num(), num(), st(), lst())


def generate(seed: int, index: int, n_typed: int = 3, n_untyped: int = 1):
    """Returns dict(source, typed=[names], untyped=[names], features=[...])."""
    rng = random.Random(f"prog-{seed}-{index}")
    g = _Gen(rng)
    g.lines.append(PRELUDE)
    typed, untyped = [], []
    for i in range(n_typed):
        name = f"f{i}"
        g.typed_function(name)
        typed.append(name)
    for i in range(n_untyped):
        name = f"g{i}"
        g.untyped_function(name)
        untyped.append(name)
    if rng.random() < 0.3:
        g.features.add("module-level-branch")
        g.emit(0, f"if GLOBAL_FLAG == {rng.randint(0, 1)}:")
        g.emit(1, "MODE = 'zero'")
        g.emit(0, "else:")
        g.emit(1, "MODE = 'other'")
    if rng.random() < 0.3:
        g.features.add("class-with-branches")
        g.emit(0, "class Shape:")
        g.emit(1, "def __init__(self, w):")
        g.emit(2, "self.w = w if w > 0 else 0")
        g.emit(1, "def area(self, h):")
        g.emit(2, "if h < 0 or self.w == 0:")
        g.emit(3, "return 0")
        g.emit(2, "return self.w * h")
        g.emit(0, "")
        g.emit(0, "def shape_area(a, b, s, l):")
        g.emit(1, "return Shape(a).area(b)")
        typed.append("shape_area")
    return {"source": "\n".join(g.lines) + "\n", "typed": typed, "untyped": untyped, "features": sorted(g.features)}


STDLIB_MODULES = ["textwrap", "bisect", "heapq", "fnmatch", "shlex", "posixpath", "colorsys", "statistics", "string", "difflib",
                  "json.encoder", "json.decoder", "glob", "copy", "pprint", "calendar", "keyword", "reprlib", "stat", "genericpath",
                  "functools", "operator", "numbers", "fractions", "ipaddress", "csv", "base64", "quopri", "netrc", "gettext"]


def code_objects_of(code):
    """All nested code objects of a module code object (including itself)."""
    out = [code]
    for c in code.co_consts:
        if hasattr(c, "co_code"):
            out.extend(code_objects_of(c))
    return out
