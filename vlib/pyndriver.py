"""Runs one whole Pynguin pipeline in THIS (fresh) interpreter with monitors installed, dumps an event log.

Usage (child):   /venv/bin/python -m vlib.pyndriver spec.json out.json
Usage (parent):  from vlib.pyndriver import run_pipeline; res = run_pipeline(spec, timeout=120, env_extra={...})

spec keys
  module, project_path, output_path           (required)
  algorithm            "DYNAMOSA" | "MOSA" | "MIO" | "WHOLE_SUITE" | "RANDOM" | "RANDOM_TEST_SUITE_SEARCH" | ...
  seed                 int
  budget               {"maximum_iterations": n} | {"maximum_test_executions": n} | {"maximum_statement_executions": n}
                       | {"maximum_search_time": s}  (exactly the given ones are set, all others disabled with -1)
  assertion_generation "NONE" | "SIMPLE" | "MUTATION_ANALYSIS" | "CHECKED_MINIMIZING"
  coverage_metrics     ["BRANCH", "LINE", "CHECKED"]
  config               {"dotted.attribute.path": value, ...}   applied last (enum values by NAME when the current value is an enum)
  monitors             ["vlib.monitors.budget", ...]  modules with install(events, spec) and optional finish(events, spec, out)
  master_worker        bool (run_pynguin_with_master_worker instead of run_pynguin)
Result JSON: {"rc": name|None, "exception": str|None, "events": [...], "files": {name: text}, "wall_s": float, ...}
"""

from __future__ import annotations

import enum
import importlib
import json
import os
import subprocess
import sys
import time
import traceback

from pathlib import Path

VERIF = Path(__file__).resolve().parent.parent
PY = "/venv/bin/python"


def build_configuration(spec):
    import pynguin.configuration as config

    cfg = config.Configuration(
        algorithm=getattr(config.Algorithm, spec.get("algorithm", "DYNAMOSA")),
        project_path=spec["project_path"],
        module_name=spec["module"],
        test_case_output=config.TestCaseOutputConfiguration(output_path=spec["output_path"]),
    )
    cfg.seeding.seed = int(spec.get("seed", 0))
    st = cfg.stopping
    st.maximum_search_time = -1
    st.maximum_iterations = -1
    st.maximum_test_executions = -1
    st.maximum_statement_executions = -1
    for k, v in (spec.get("budget") or {"maximum_iterations": 5}).items():
        setattr(st, k, v)
    cfg.use_master_worker = bool(spec.get("master_worker", False))
    cfg.statistics_output.statistics_backend = config.StatisticsBackend.NONE
    cfg.statistics_output.report_dir = spec["output_path"]
    cfg.test_case_output.assertion_generation = getattr(config.AssertionGenerator, spec.get("assertion_generation", "NONE"))
    if "coverage_metrics" in spec:
        cfg.statistics_output.coverage_metrics = [getattr(config.CoverageMetric, m) for m in spec["coverage_metrics"]]
    for path, value in (spec.get("config") or {}).items():
        obj = cfg
        *parents, leaf = path.split(".")
        for p in parents:
            obj = getattr(obj, p)
        cur = getattr(obj, leaf)
        if isinstance(cur, enum.Enum) and isinstance(value, str):
            value = getattr(type(cur), value)
        elif isinstance(cur, list) and cur and isinstance(cur[0], enum.Enum):
            value = [getattr(type(cur[0]), v) if isinstance(v, str) else v for v in value]
        setattr(obj, leaf, value)
    return cfg


def main(spec_path, out_path):
    spec = json.loads(Path(spec_path).read_text())
    sys.path.insert(0, str(VERIF))
    deps = VERIF / ".deps"
    if deps.is_dir():
        sys.path.append(str(deps))
    events: list = []
    out: dict = {"rc": None, "exception": None, "events": events, "files": {}}
    t0 = time.time()
    try:
        cfg = build_configuration(spec)
        from pynguin.generator import run_pynguin, set_configuration

        set_configuration(cfg)
        if os.environ.get("VERIF_SELFTEST_PATCH"):  # self-test only: seeded break applied by monkeypatching
            _p = os.environ["VERIF_SELFTEST_PATCH"]
            exec(compile(Path(_p).read_text(), _p, "exec"), {"__name__": "selftest_patch"})  # noqa: S102
        mons = [importlib.import_module(m) for m in spec.get("monitors", [])]
        for m in mons:
            m.install(events, spec)
        if spec.get("master_worker"):
            from pynguin.master_worker.client import run_pynguin_with_master_worker

            rc = run_pynguin_with_master_worker(cfg)
        else:
            rc = run_pynguin()
        out["rc"] = getattr(rc, "name", str(rc))
        for m in mons:
            if hasattr(m, "finish"):
                try:
                    m.finish(events, spec, out)
                except Exception as e:  # noqa: BLE001
                    events.append({"ev": "monitor-finish-failed", "monitor": m.__name__, "error": f"{type(e).__name__}: {e}", "tb": traceback.format_exc()[-1500:]})
    except BaseException as e:  # noqa: BLE001
        out["exception"] = f"{type(e).__name__}: {e}"
        out["traceback"] = traceback.format_exc()[-3000:]
    out["wall_s"] = round(time.time() - t0, 2)
    outdir = Path(spec["output_path"])
    if outdir.is_dir():
        for f in sorted(outdir.glob("*")):
            if f.is_file() and f.suffix in (".py", ".xml", ".html", ".csv", ".json") and f.stat().st_size < 2_000_000:
                try:
                    out["files"][f.name] = f.read_text()
                except Exception:  # noqa: BLE001
                    pass
    Path(out_path).write_text(json.dumps(out, default=repr))


def run_pipeline(spec: dict, timeout: float = 180, env_extra: dict | None = None, workdir: Path | None = None) -> dict:
    """Parent side: run the driver in a fresh interpreter; never raises.  Returns the result dict plus
    {"timeout": bool, "returncode": int, "stderr_tail": str}."""
    workdir = Path(workdir or (Path(spec["output_path"]).parent / "_drv"))
    workdir.mkdir(parents=True, exist_ok=True)
    tag = f"{os.getpid()}_{time.time_ns()}"
    spec_f, out_f = workdir / f"_spec_{tag}.json", workdir / f"_out_{tag}.json"
    spec_f.write_text(json.dumps(spec))
    env = dict(os.environ)
    env.setdefault("PYTHONHASHSEED", "0")
    env["PYTHONDONTWRITEBYTECODE"] = "1"
    env["PYTHONPATH"] = str(VERIF) + (os.pathsep + env["PYTHONPATH"] if env.get("PYTHONPATH") else "")
    env["SE2P_PYNGUIN_VERIF"] = "1"
    if env_extra:
        env.update({k: str(v) for k, v in env_extra.items()})
    t0 = time.time()
    res: dict = {"timeout": False}
    try:
        cp = subprocess.run([PY, "-m", "vlib.pyndriver", str(spec_f), str(out_f)], env=env, capture_output=True, text=True, timeout=timeout, cwd=str(VERIF))
        res["returncode"] = cp.returncode
        res["stderr_tail"] = cp.stderr[-3000:]
    except subprocess.TimeoutExpired as e:
        res["timeout"] = True
        res["returncode"] = None
        res["stderr_tail"] = (e.stderr.decode() if isinstance(e.stderr, bytes) else (e.stderr or ""))[-3000:]
    if out_f.exists():
        try:
            res.update(json.loads(out_f.read_text()))
        except Exception as e:  # noqa: BLE001
            res["exception"] = f"unreadable driver output: {e}"
    else:
        res.setdefault("rc", None)
        res.setdefault("events", [])
        res.setdefault("files", {})
        res.setdefault("exception", "driver produced no output")
    res["parent_wall_s"] = round(time.time() - t0, 2)
    for f in (spec_f, out_f):
        try:
            f.unlink()
        except OSError:
            pass
    return res


if __name__ == "__main__":
    main(sys.argv[1], sys.argv[2])
