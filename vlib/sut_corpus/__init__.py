"""Small deterministic SUT modules used as data by the whole-pipeline checks."""
from pathlib import Path

HERE = Path(__file__).resolve().parent
ALL = ["tri", "floats", "strings", "containers", "account", "colors", "queue_", "printer", "lastcall", "safefloats"]
RANDOM_USING = ["rng_user"]
# not part of ALL (other checks iterate ALL): copy them by name
STATE_BETWEEN_EXECUTIONS = ["tickets"]  # C21: assertions that fail / error when the test is executed again in the same process
LONG_CHAINS = ["chains"]  # C22: asserted leaf at the end of a chain of unasserted (builtin collection) intermediates
SHARED_LINES = ["shared_lines", "oneline_first"]  # C35: one source line = entry of code objects + predicates of another one
# deterministic, but with unannotated / Union parameters, a class hierarchy and a pragma-excluded branch; used by C16 only
# (kept out of ALL so that the workloads of the other whole-pipeline checks do not change)
EXTRA = ["untyped", "shapespkg.area", "tagsets", "vocab"]  # "pkg.mod": the whole package directory is copied, the dotted name is the module under test
# used by the generated-file checks C18/C19/C24 only: oracles on module-level state at statements that bind nothing, and
# values whose class is nested in another class
GENFILES_EXTRA = ["counter", "nested", "privexc", "allenum"]
STATEFUL_MODULE = ["counter"]  # module-level variables changed by calls: what a test observes first depends on earlier executions


# modules whose functions never iterate over (or order) an argument: a set built by a test cannot make THEIR behaviour depend on
# the string-hash seed (hashing a str / frozenset of str does not depend on iteration order)
NO_ARGUMENT_ITERATION = ["vocab", "tagsets", "tri", "lastcall"]


def copy_to(dest, names=None):
    """Copy the SUT sources into a scratch project dir (so pynguin never writes below /verif)."""
    import shutil

    dest = Path(dest)
    dest.mkdir(parents=True, exist_ok=True)
    for n in names or (ALL + RANDOM_USING):
        if "." in n:
            pkg = n.split(".", 1)[0]
            shutil.copytree(HERE / pkg, dest / pkg, dirs_exist_ok=True, ignore=shutil.ignore_patterns("__pycache__"))
        else:
            shutil.copy(HERE / f"{n}.py", dest / f"{n}.py")
    return dest
