"""Class with state."""


class InsufficientFunds(Exception):
    pass


class Account:
    opened = 0

    def __init__(self, owner: str, balance: int = 0):
        self.owner = owner
        self.balance = balance
        self.history: list[int] = []
        Account.opened += 1

    def deposit(self, amount: int) -> int:
        if amount <= 0:
            raise ValueError("amount must be positive")
        self.balance += amount
        self.history.append(amount)
        return self.balance

    def withdraw(self, amount: int) -> int:
        if amount > self.balance:
            raise InsufficientFunds(amount)
        self.balance -= amount
        self.history.append(-amount)
        return self.balance

    def is_rich(self) -> bool:
        return self.balance > 1000

    def rate(self) -> float:
        if self.balance > 100:
            return 0.05
        return 0.01


def transfer(src: Account, dst: Account, amount: int) -> bool:
    if src is dst:
        return False
    src.withdraw(amount)
    dst.deposit(amount)
    return True
