"""Declares __all__ and leaves a public enum class out of it; the enum's members are values the functions return."""

import enum

__all__ = ["Shape", "classify"]


class Size(enum.Enum):
    SMALL = 1
    LARGE = 2


class Shape:
    def __init__(self, width: int):
        self.width = width

    def size(self) -> Size:
        if self.width < 10:
            return Size.SMALL
        return Size.LARGE


def classify(width: int) -> Size:
    if width < 0:
        raise ValueError("negative width")
    return Shape(width).size()
