"""Long dependency chains through unasserted intermediate values (builtin collections).  Nothing raises, whatever the argument is
(a raising statement ends a generated test), and there are so few goals that most chains are coverage-redundant."""


def seed_list(n: int) -> list[int]:
    return [1, 2] if n else [0]


def extend(xs: list[int]) -> list[int]:
    return [len(xs), 7] if isinstance(xs, list) else []


def pairs(xs: list[int]) -> dict[int, int]:
    return {0: len(xs)} if isinstance(xs, list) else {}


def keys_of(d: dict[int, int]) -> list[int]:
    return sorted(d) if isinstance(d, dict) else []


def total(d: dict[int, int]) -> int:
    return len(d) if isinstance(d, dict) else -1


def count(xs: list[int]) -> int:
    return len(xs) if isinstance(xs, list) else -1
