"""Enums."""
import enum


class Color(enum.Enum):
    RED = 1
    GREEN = 2
    BLUE = 3


class Level(enum.IntEnum):
    LOW = 1
    HIGH = 2


def mix(a: Color, b: Color) -> Color:
    if a == b:
        return a
    if Color.RED in (a, b) and Color.GREEN in (a, b):
        return Color.BLUE
    return Color.RED


def level_of(x: int) -> Level:
    if x > 10:
        return Level.HIGH
    return Level.LOW


def name_of(c: Color) -> str:
    return c.name.lower()
