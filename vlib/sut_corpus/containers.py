"""Container-returning code."""


def evens(xs: list[int]) -> list[int]:
    return [x for x in xs if x % 2 == 0]


def histogram(xs: list[int]) -> dict[int, int]:
    out: dict[int, int] = {}
    for x in xs:
        out[x] = out.get(x, 0) + 1
    return out


def pair(a: int, b: str) -> tuple[int, str]:
    if a < 0:
        return (0, b)
    return (a, b * 2)


def uniq(xs: list[int]) -> set[int]:
    return set(xs)


def nested(n: int) -> list[list[int]]:
    return [[i] * i for i in range(min(max(n, 0), 4))]


def head(xs: list[int]) -> int:
    return xs[0]
