"""Void functions whose only observable effect is module-level state (asserted through the module alias, not a variable).

The state after a call depends on that call only (not on the history), so assertions on it are stable across executions."""

LAST = "none"
MODE = 0


def bump() -> None:
    global LAST
    LAST = "bump"


def set_mode(n: int) -> None:
    global LAST, MODE
    if n < 0:
        raise ValueError("negative mode")
    MODE = n % 3
    LAST = "mode"


def clear() -> None:
    global LAST, MODE
    if MODE:
        MODE = 0
        LAST = "cleared"
    else:
        LAST = "clean"
