"""Float-returning code incl. -0.0, nan, inf."""
import math


def half(x: float) -> float:
    return x / 2


def neg_zero(x: int) -> float:
    if x > 0:
        return -0.0
    return 0.0


def weird(x: int) -> float:
    if x == 1:
        return float("nan")
    if x == 2:
        return float("inf")
    if x == 3:
        return -float("inf")
    return 1e-7 * x


def mean(values: list[float]) -> float:
    if not values:
        return 0.0
    return sum(values) / len(values)


def as_complex(x: int) -> complex:
    return complex(x, -x)


def root(x: float) -> float:
    if x < 0:
        raise ValueError("negative")
    return math.sqrt(x)
