"""The interesting value is the result of the last call (not used by later statements)."""


def fib(n: int) -> int:
    if n < 0:
        raise ValueError("negative")
    a, b = 0, 1
    for _ in range(min(n, 30)):
        a, b = b, a + b
    return a


def is_prime(n: int) -> bool:
    if n < 2:
        return False
    i = 2
    while i * i <= n and i < 100:
        if n % i == 0:
            return False
        i += 1
    return True


def describe(n: int) -> str:
    if is_prime(n):
        return "prime"
    if n % 2 == 0:
        return "even"
    return "odd"


def ratio(a: int, b: int) -> float:
    if b == 0:
        return float(a)
    return a / b
