"""Classes nested in classes: values whose type has a dotted qualified name (Canvas.Layer, Canvas.Layer.Style)."""


class Canvas:
    class Layer:
        class Style:
            def __init__(self, width: int = 1):
                self.width = width if width > 0 else 1

        def __init__(self, name: str, z: int = 0):
            self.name = name
            self.z = z

        def raised(self) -> "Canvas.Layer":
            return Canvas.Layer(self.name, self.z + 1)

        def style(self) -> "Canvas.Layer.Style":
            return Canvas.Layer.Style(self.z + 1)

    def __init__(self):
        self.count = 0

    def add_layer(self, name: str) -> "Canvas.Layer":
        self.count += 1
        if not name:
            return Canvas.Layer("unnamed", self.count)
        return Canvas.Layer(name, self.count)


def make_layer(z: int) -> Canvas.Layer:
    if z < 0:
        raise ValueError("negative z")
    return Canvas.Layer("made", z)
