def pick(x: int) -> int: return 1 if x else 2
def twice(x: int) -> int: return x * 2
def neg(x: int) -> int: return -x
