"""Code that prints and uses try/with."""


class Ctx:
    def __init__(self):
        self.log: list[str] = []

    def __enter__(self):
        self.log.append("in")
        return self

    def __exit__(self, *exc):
        self.log.append("out")
        return False


def report(n: int) -> int:
    with Ctx() as c:
        if n > 2:
            print("big", n)
        else:
            print("small", n)
        c.log.append(str(n))
    return len(c.log)


def safe_div(a: int, b: int) -> float:
    try:
        return a / b
    except ZeroDivisionError:
        print("division by zero")
        return 0.0
    finally:
        print("done")


def digits(n: int) -> list[int]:
    out = []
    while n > 0 and len(out) < 6:
        out.append(n % 10)
        n //= 10
    return out
