"""Raises an exception class that is private to the module (underscore name): a written ``pytest.raises(<module>._OutOfRange)``
needs the class to be reachable from the test file although ``from privexc import *``-style public imports leave it out."""


class _OutOfRange(Exception):
    pass


class Gauge:
    def __init__(self, limit: int):
        if limit <= 0:
            raise _OutOfRange("limit must be positive")
        self.limit = limit
        self.value = 0

    def set(self, value: int) -> int:
        if value > self.limit:
            raise _OutOfRange(f"{value} > {self.limit}")
        if value < 0:
            raise ValueError("negative")
        self.value = value
        return self.limit - value


def clamp(value: int, limit: int) -> int:
    if limit < 0:
        raise _OutOfRange("negative limit")
    return min(value, limit)
