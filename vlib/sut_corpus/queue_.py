"""A small stateful container class with exceptions."""


class Empty(Exception):
    pass


class Queue:
    def __init__(self, capacity: int = 3):
        if capacity <= 0:
            raise ValueError("capacity")
        self.capacity = capacity
        self.items: list[int] = []

    def push(self, x: int) -> bool:
        if len(self.items) >= self.capacity:
            return False
        self.items.append(x)
        return True

    def pop(self) -> int:
        if not self.items:
            raise Empty()
        return self.items.pop(0)

    def peek(self) -> int | None:
        if self.items:
            return self.items[0]
        return None

    def __len__(self) -> int:
        return len(self.items)

    def drain(self) -> list[int]:
        out = []
        while self.items:
            out.append(self.pop())
        return out
