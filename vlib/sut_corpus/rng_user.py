"""Uses the random module (deterministic only under Pynguin's seeding fixture)."""
import random


def roll(sides: int) -> int:
    if sides < 1:
        raise ValueError("sides")
    return random.randint(1, sides)


def pick(xs: list[int]) -> int:
    if not xs:
        return -1
    return random.choice(xs)


def coin() -> bool:
    return random.random() < 0.5
