"""Float-returning code that never raises, whatever the argument types (no raising statement in the tests)."""


def _num(x) -> float:
    if isinstance(x, (int, float)):
        try:
            return float(x)
        except OverflowError:
            return 0.0
    return 0.0


def half(x: float) -> float:
    return _num(x) / 2


def scale(x: float, k: int) -> float:
    v = _num(x)
    if v > 100.0:
        return 100.0
    if v < 0:
        return -1.5
    if _num(k) > 3:
        return v * 0.25
    return v


def ratio(a: int, b: int) -> float:
    d = _num(b)
    if d == 0:
        return 0.0
    return _num(a) / d
