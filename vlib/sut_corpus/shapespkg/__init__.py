"""A package: the module under test (area) has sibling modules whose constants enter the same static constant pool."""
