"""Module under test inside a package."""

from shapespkg.names import KNOWN
from shapespkg.units import FACTORS


def area(kind: str, a: int, b: int) -> int:
    if kind == "rect":
        return a * b
    if kind == "tri":
        return a * b // 2
    if kind == "square":
        return a * a
    if kind in KNOWN:
        return 0
    raise ValueError("unknown shape")


def convert(value: int, unit: str) -> int:
    if unit == "mm":
        return value * 1000
    if unit == "cm":
        return value * 100
    if unit in FACTORS:
        return value * FACTORS[unit]
    if value == 4711:
        return -1
    return value


def label(kind: str, size: int) -> str:
    if size > 9000:
        return "huge " + kind
    if size < -17:
        return "negative " + kind
    if kind.startswith("tri"):
        return "three-sided"
    return kind
