"""Sibling module: string and int constants."""

KNOWN = ("circle", "ellipse", "hexagon", "pentagon", "rhombus", "trapezoid", "kite", "octagon")
ALIASES = {"sq": "square", "rc": "rect", "tr": "tri", "ci": "circle"}
LIMITS = (3, 5, 8, 13, 21, 34, 55, 89)


def canonical(name: str) -> str:
    return ALIASES.get(name, name)
