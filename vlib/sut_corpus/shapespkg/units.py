"""Sibling module: more constants of the same types."""

FACTORS = {"m": 1, "dm": 10, "km": 100000, "inch": 39, "foot": 3, "yard": 1, "mile": 1609, "league": 4828}
DEFAULT_UNIT = "furlong"
PRECISION = 1024
