"""Source lines that belong to several kinds of coverage goals at once."""
OPS = [lambda a: a + 1, lambda a: a * 2, lambda a: -a]


def best(xs: list[tuple[int, int]]):
    return max(xs, key=lambda it: it[1]) if xs else None


def ordered(d: dict[str, int]) -> list[str]:
    out = []
    for k in sorted(d, key=lambda k: d[k]):
        out.append(k)
    return out


def apply(i: int, v: int) -> int:
    return OPS[i % 3](v)


def picks(xs: list[int]) -> list[int]:
    return [(lambda v: v * 2)(x) for x in xs if x > 0]


def outer(x: int) -> int:
    def a(y): return y if y else x
    def b(y): return a(y) + 1 if y > 1 else (lambda: 0)()
    return b(x)


def deco(g): return lambda f: (lambda *a: f(*a) if g() else None)


@deco(lambda: True)
def decorated(x: int) -> int:
    return x + 1


def both(a: int, b: int) -> int: return (lambda: a)() if a > b else (lambda: b)()
