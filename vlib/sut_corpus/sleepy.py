"""Some inputs block far longer than the per-test timeout: executions that time out still count against the budgets."""

import time


def nap(n: int) -> int:
    if n > 100:
        time.sleep(30)
        return -1
    if n < -100:
        while True:
            time.sleep(0.05)
    return n + 1


def quick(n: int) -> int:
    if n % 2:
        return n
    return -n
