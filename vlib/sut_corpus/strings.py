"""String handling with odd characters."""


def shout(s: str) -> str:
    if not s:
        return ""
    if s.startswith(("a", "b")):
        return s.upper() + "!"
    if s.endswith("?"):
        return s[:-1]
    return s + "'\"\\\n"


def count_vowels(s: str) -> int:
    n = 0
    for ch in s:
        if ch in "aeiou":
            n += 1
    return n


def first_word(s: str) -> str:
    parts = s.split()
    if not parts:
        raise ValueError("empty")
    return parts[0]


def encode(s: str) -> bytes:
    return s.encode("utf-8", "replace")
