"""Returns sets of strings (never iterates over them): deterministic values whose *rendering* must not follow the hash seed."""


def tags(level: int) -> set[str]:
    if level < 0:
        return {"negative", "invalid", "rejected"}
    if level == 0:
        return set()
    if level < 10:
        return {"low", "single-digit", "accepted", "small"}
    return {"high", "accepted", "multi-digit", "large", "review"}


def merge(level: int, extra: str) -> frozenset[str]:
    base = tags(level)
    if extra:
        return frozenset(base | {extra})
    return frozenset(base)


def has(level: int, tag: str) -> bool:
    return tag in tags(level)


def size(labels: set[str]) -> int:
    if len(labels) > 2:
        return 3
    return len(labels)
