"""Values that are deterministic per process but differ between two executions of the same test in one process."""
_count = 0


def _next() -> int:
    global _count
    _count += 1
    return _count


class Ticket:
    """serial: differs on re-execution (assertion fails); slot_<n>: attribute name used once (assertion errors)."""

    def __init__(self, label: str = "std"):
        n = _next()
        self.label = label
        self.serial = n
        setattr(self, f"slot_{n}", len(label))

    def describe(self) -> str:
        if self.label:
            return self.label.upper()
        return "?"


class Ghost:
    """Only an attribute that does not exist on re-execution (assertion errors), the rest holds."""

    def __init__(self):
        self.kind = "ghost"
        setattr(self, f"trace_{_next()}", 1)

    def solid(self) -> bool:
        return False


def next_id() -> int:
    """Depends on the number of calls so far (assertion fails on re-execution)."""
    return _next()


def stable(x: int) -> int:
    if x > 3:
        return x - 3
    return x
