"""Triangle classification (numeric branches)."""


def classify(a: int, b: int, c: int) -> str:
    if a <= 0 or b <= 0 or c <= 0:
        return "invalid"
    if a + b <= c or a + c <= b or b + c <= a:
        return "not a triangle"
    if a == b == c:
        return "equilateral"
    if a == b or b == c or a == c:
        return "isosceles"
    return "scalene"


def perimeter(a: int, b: int, c: int) -> int:
    if classify(a, b, c) in ("invalid", "not a triangle"):
        raise ValueError("no triangle")
    return a + b + c
