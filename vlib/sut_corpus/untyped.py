"""Shapes the annotated modules lack: unannotated and Optional/Union parameters, a small class hierarchy,
string comparisons (dynamic constant seeding), a pragma-excluded branch, a nested function, a property."""


class Shape:
    def __init__(self, name="shape"):
        self.name = name

    def area(self) -> float:
        return 0.0

    @property
    def label(self) -> str:
        return self.name.upper()


class Square(Shape):
    def __init__(self, side: float = 1.0):
        super().__init__("square")
        self.side = side

    def area(self) -> float:
        if self.side < 0:
            raise ValueError("side")
        return self.side * self.side


class Disc(Shape):
    def __init__(self, radius: int = 1):
        super().__init__("disc")
        self.radius = radius

    def area(self) -> float:
        return 3.0 * self.radius * self.radius


def bigger(a: Shape, b: Shape) -> Shape:
    if a.area() >= b.area():
        return a
    return b


def guess(x, y=None):
    if x is None:
        return "none"
    if isinstance(x, str):
        if x == "magic":
            return "word"
        if x.startswith("pre"):
            return "prefix"
        return "text"
    if isinstance(x, (int, float)):
        if y is not None and x == y:
            return "same"
        if x > 41:
            return "big"
        return "small"
    if isinstance(x, (list, tuple)):
        return "sequence of %d" % len(x)
    return "other"


def pick(value: int | str | None, table: dict[str, int]) -> int:
    if value is None:
        return -1
    if isinstance(value, str):
        if value in table:
            return table[value]
        return len(value)
    if value < 0:  # pragma: no cover
        return 0
    total = 0
    for key in sorted(table):
        if table[key] > value:
            total += 1
    return total


def compose(n: int):
    def add(k: int) -> int:
        if k > n:
            return k - n
        return k + n

    return add(n * 2) + add(1)
