"""Membership tests against a large frozenset of strings that are computed at import time (not in the static constant pool).
The branch distance of `word in WORDS` is a minimum over ALL elements, whatever order the set iterates in."""

WORDS = frozenset(f"w{(i * i) % 977}-{chr(97 + i % 26)}{chr(97 + (i * 7) % 26)}" for i in range(130))
SHORT = frozenset(w[:3] for w in WORDS)


def known(word: str) -> bool:
    if word in WORDS:
        return True
    return False


def grade(word: str, bonus: int) -> int:
    if word not in WORDS:
        if word[:3] in SHORT:
            return 1 + bonus
        return 0
    if bonus > 10:
        return 3
    return 2
