"""Shared helpers for the type-system checks (C25, C26): build a real cluster from a modgen package,
draw random ProperTypes over its classes, describe types by shape, clear the lru caches.

Everything here works on the *real* TypeSystem produced by generate_test_cluster; pynguin is imported lazily.
"""

from __future__ import annotations

CACHED_TS_METHODS = ("is_subclass", "is_subtype", "is_maybe_subtype", "subtype_distance", "get_subclasses", "get_superclasses")


def clear_type_caches():
    from pynguin.analyses.typesystem import TypeSystem

    for name in CACHED_TS_METHODS:
        clear = getattr(getattr(TypeSystem, name, None), "cache_clear", None)
        if clear is not None:  # a method that is not lru-cached (any more) has nothing to clear
            clear()


def build_cluster(manifest, selection="RANK_SELECTION"):
    """Real module analysis of the generated package. Returns the ModuleTestCluster."""
    import importlib
    import sys

    import pynguin.configuration as config

    from pynguin.analyses.module import generate_test_cluster

    if manifest["dir"] not in sys.path:
        sys.path.insert(0, manifest["dir"])
    importlib.invalidate_caches()
    c = config.configuration
    c.module_name = manifest["sut"]
    c.element_visibility = config.ElementVisibility.PUBLIC
    c.ignore_methods, c.ignore_modules = [], []
    c.generator_selection.generator_selection_algorithm = config.Selection(selection)
    try:
        return generate_test_cluster(manifest["sut"])
    finally:
        c.generator_selection.generator_selection_algorithm = config.Selection.RANK_SELECTION


def shape(t) -> str:
    from pynguin.analyses import typesystem as tsm

    if isinstance(t, tsm.AnyType):
        return "any"
    if isinstance(t, tsm.NoneType):
        return "none"
    if isinstance(t, tsm.Instance):
        return "inst[]" if t.args else "inst"
    if isinstance(t, tsm.TupleType):
        return "tuple"
    if isinstance(t, tsm.UnionType):
        return "union"
    return type(t).__name__


def contains_any(t) -> bool:
    from pynguin.analyses import typesystem as tsm

    if isinstance(t, tsm.AnyType):
        return True
    if isinstance(t, tsm.Instance):
        return any(contains_any(a) for a in t.args)
    if isinstance(t, tsm.TupleType):
        return any(contains_any(a) for a in t.args)
    if isinstance(t, tsm.UnionType):
        return any(contains_any(a) for a in t.items)
    return False


def nominal_subclass(a: type, b: type) -> bool:
    return b in a.__mro__


def tower_subclass(a: type, b: type) -> bool:
    """The numeric tower as enable_numeric_tower implements it: extra edges float->int, complex->float
    (int->bool exists anyway), closed under the real hierarchy (object is above everything already)."""
    if int in a.__mro__ and b in (float, complex):
        return True
    return float in a.__mro__ and b is complex


class Pool:
    """Random ProperTypes over the classes of one analysed package."""

    def __init__(self, ts, cluster, manifest, rng):
        from pynguin.analyses import typesystem as tsm

        self.ts, self.rng, self.tsm = ts, rng, tsm
        mods = (manifest["sut"], manifest["helper"])
        self.infos = [ti for ti in ts.get_all_types() if isinstance(ti.raw_type, type) and ti.raw_type is not tuple
                      and ti.full_name != "builtins.NoneType"]
        self.module_infos = [ti for ti in self.infos if ti.module in mods]
        core = [int, float, bool, complex, str, bytes, list, dict, set, object, Exception, ValueError]
        self.core_infos = [ts.to_type_info(x) for x in core]
        self.list_i, self.set_i, self.dict_i = ts.to_type_info(list), ts.to_type_info(set), ts.to_type_info(dict)
        self.generic_infos = [ti for ti in self.module_infos if getattr(ti.raw_type, "__parameters__", ())]
        harvested = []
        seen = set()
        accs = list(cluster.accessible_objects_under_test)
        for gens in cluster.generators.values():
            accs.extend(gens)
        for acc in accs:
            sig = getattr(acc, "inferred_signature", None)
            if sig is None:
                continue
            for t in [sig.return_type, *sig.original_parameters.values()]:
                if t not in seen:
                    seen.add(t)
                    harvested.append(t)
        self.harvested = harvested

    def inst(self):
        rng = self.rng
        info = rng.choice(self.module_infos) if (self.module_infos and rng.random() < 0.65) else rng.choice(self.core_infos)
        if rng.random() < 0.05:
            info = rng.choice(self.infos)
        return self.ts.make_instance(info)

    def rand(self, depth=0):
        rng, tsm = self.rng, self.tsm
        r = rng.random()
        if depth >= 3:
            r = r * 0.5
        if r < 0.33:
            return self.inst()
        if r < 0.40:
            return tsm.NONE_TYPE
        if r < 0.46:
            return tsm.ANY
        if r < 0.54 and self.harvested:
            return rng.choice(self.harvested)
        if r < 0.70:
            k = rng.random()
            if k < 0.35:
                return tsm.Instance(self.list_i, (self.rand(depth + 1),))
            if k < 0.6:
                return tsm.Instance(self.set_i, (self.rand(depth + 1),))
            if k < 0.85 or not self.generic_infos:
                return tsm.Instance(self.dict_i, (self.rand(depth + 1), self.rand(depth + 1)))
            return tsm.Instance(rng.choice(self.generic_infos), (self.rand(depth + 1),))
        if r < 0.82:
            if rng.random() < 0.12:
                return tsm.TupleType((tsm.ANY,), unknown_size=True)
            return tsm.TupleType(tuple(self.rand(depth + 1) for _ in range(rng.randint(0, 3))))
        return self.union([self.rand(depth + 1) for _ in range(rng.randint(1, 3))])

    def union(self, items):
        """A union the way pynguin builds them: flat, sorted, without duplicates."""
        tsm = self.tsm
        flat = []
        for it in items:
            for x in (it.items if isinstance(it, tsm.UnionType) else (it,)):
                if x not in flat:
                    flat.append(x)
        return tsm.UnionType(tuple(sorted(flat)))

    def superclass_instance(self, t):
        """An instance of a (nominal or numeric-tower) superclass of t's class, taken from Python's own MRO."""
        raw = t.type.raw_type
        ups = [c for c in raw.__mro__[1:]]
        if int in raw.__mro__:
            ups += [float, complex]
        elif float in raw.__mro__:
            ups += [complex]
        ups = [self.ts.find_type_info(self.tsm.TypeInfo.to_full_name(c)) for c in ups]
        ups = [u for u in ups if u is not None and u.raw_type is not tuple]
        if not ups:
            return t
        return self.ts.make_instance(self.rng.choice(ups))

    def widen(self, t, depth=0):
        """A type that is plausibly a supertype of t and introduces no Any. The caller never trusts this:
        premises are always re-checked with the real is_subtype."""
        rng, tsm = self.rng, self.tsm
        r = rng.random()
        if r < 0.3 or depth > 2:
            extra = [self.rand(2) for _ in range(rng.randint(1, 2))]
            extra = [e for e in extra if not contains_any(e)] or [tsm.NONE_TYPE]
            return self.union([t, *extra])
        if isinstance(t, tsm.Instance):
            if t.args and t.type.num_hardcoded_generic_parameters is not None and rng.random() < 0.5:
                return t
            up = self.superclass_instance(t)
            return up if not contains_any(up) else t
        if isinstance(t, tsm.TupleType) and not t.unknown_size:
            return tsm.TupleType(tuple(self.widen(a, depth + 1) for a in t.args))
        if isinstance(t, tsm.UnionType):
            items = list(t.items)
            i = rng.randrange(len(items))
            items[i] = self.widen(items[i], depth + 1)
            return self.union(items)
        return self.union([t, self.inst()])
