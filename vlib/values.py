"""Adversarial value corpus.  Every entry is (name, value_class, factory) — factories give fresh,
independent objects so that the oracle and the code under test never share mutable state.

User classes append (class, dunder) to OPLOG whenever one of their operators is called, so a monitor
can see which user operators a piece of code invoked.
"""

from __future__ import annotations

import decimal
import fractions
import math

OPLOG: list[tuple[str, str]] = []


def _log(obj, name):
    OPLOG.append((type(obj).__name__, name))


class OnlyLt:
    """Defines only __lt__ (and identity eq)."""

    def __init__(self, v):
        self.v = v

    def __lt__(self, other):
        _log(self, "__lt__")
        return self.v < getattr(other, "v", other)

    def __repr__(self):
        return f"OnlyLt({self.v!r})"


class OnlyEq:
    def __init__(self, v):
        self.v = v

    def __eq__(self, other):
        _log(self, "__eq__")
        return self.v == getattr(other, "v", other)

    __hash__ = None  # type: ignore[assignment]

    def __repr__(self):
        return f"OnlyEq({self.v!r})"


class RaisingEq:
    def __init__(self, v=0):
        self.v = v

    def __eq__(self, other):
        _log(self, "__eq__")
        raise ValueError("eq not allowed")

    def __hash__(self):
        return 7

    def __repr__(self):
        return "RaisingEq()"


class RaisingBool:
    def __bool__(self):
        _log(self, "__bool__")
        raise RuntimeError("no truth value")

    def __repr__(self):
        return "RaisingBool()"


class Cancelled(BaseException):
    """Not an Exception: what asyncio.CancelledError / KeyboardInterrupt / SystemExit are."""


class RaisingBase:
    """Comparison and truth value raise a BaseException that is not an Exception."""

    def __init__(self, v=0):
        self.v = v

    def __eq__(self, other):
        _log(self, "__eq__")
        raise Cancelled("eq cancelled")

    def __lt__(self, other):
        _log(self, "__lt__")
        raise Cancelled("lt cancelled")

    def __bool__(self):
        _log(self, "__bool__")
        raise Cancelled("bool cancelled")

    def __hash__(self):
        return 11

    def __repr__(self):
        return "RaisingBase()"


class LenOnly:
    def __init__(self, n):
        self.n = n

    def __len__(self):
        _log(self, "__len__")
        return self.n

    def __repr__(self):
        return f"LenOnly({self.n})"


class ContainsOnly:
    def __init__(self, *items):
        self.items = items

    def __contains__(self, x):
        _log(self, "__contains__")
        return x in self.items

    def __repr__(self):
        return f"ContainsOnly{self.items!r}"


class NonBoolEq:
    """__eq__ returns a non-bool (truthy list / falsy empty list)."""

    def __init__(self, v):
        self.v = v

    def __eq__(self, other):
        _log(self, "__eq__")
        return [1] if self.v == getattr(other, "v", other) else []

    def __hash__(self):
        return hash(self.v)

    def __repr__(self):
        return f"NonBoolEq({self.v!r})"


class FullOrder:
    """functools.total_ordering style complete protocol; logs each operator."""

    def __init__(self, v):
        self.v = v

    def _o(self, other):
        return getattr(other, "v", other)

    def __eq__(self, other):
        _log(self, "__eq__")
        return self.v == self._o(other)

    def __ne__(self, other):
        _log(self, "__ne__")
        return self.v != self._o(other)

    def __lt__(self, other):
        _log(self, "__lt__")
        return self.v < self._o(other)

    def __le__(self, other):
        _log(self, "__le__")
        return self.v <= self._o(other)

    def __gt__(self, other):
        _log(self, "__gt__")
        return self.v > self._o(other)

    def __ge__(self, other):
        _log(self, "__ge__")
        return self.v >= self._o(other)

    def __hash__(self):
        return hash(self.v)

    def __repr__(self):
        return f"FullOrder({self.v!r})"


class Plain:
    def __init__(self, v=0):
        self.v = v

    def __repr__(self):
        return f"Plain({self.v!r})"


class OneShot:
    """Iterator that records how many items were consumed."""

    def __init__(self, items):
        self._it = iter(list(items))
        self.consumed = 0

    def __iter__(self):
        return self

    def __next__(self):
        v = next(self._it)
        self.consumed += 1
        return v

    def __repr__(self):
        return f"OneShot(consumed={self.consumed})"


class MyErr(ValueError):
    pass


class OtherErr(Exception):
    pass


USER_CLASSES = [OnlyLt, OnlyEq, RaisingEq, RaisingBool, RaisingBase, LenOnly, ContainsOnly, NonBoolEq, FullOrder, Plain, OneShot]

nan = float("nan")
inf = math.inf

# (name, class, factory)
VALUES = [
    ("int0", "int", lambda: 0),
    ("int1", "int", lambda: 1),
    ("int-1", "int", lambda: -1),
    ("int7", "int", lambda: 7),
    ("int2^53", "int>2**53", lambda: 2**53),
    ("int2^53+1", "int>2**53", lambda: 2**53 + 1),
    ("int-2^63", "int>2**53", lambda: -(2**63)),
    ("int10^400", "int>1e308", lambda: 10**400),
    ("int-10^400", "int>1e308", lambda: -(10**400)),
    ("true", "bool", lambda: True),
    ("false", "bool", lambda: False),
    ("f0.0", "float", lambda: 0.0),
    ("f-0.0", "float-0.0", lambda: -0.0),
    ("f1.5", "float", lambda: 1.5),
    ("f-2.25", "float", lambda: -2.25),
    ("f5e-324", "float-subnormal", lambda: 5e-324),
    ("f1e-12", "float-tiny", lambda: 1e-12),
    ("f0.3", "float", lambda: 0.3),
    ("f0.1+0.2", "float-near-equal", lambda: 0.1 + 0.2),
    ("f1e308", "float-huge", lambda: 1e308),
    ("f-1e308", "float-huge", lambda: -1e308),
    ("finf", "float-inf", lambda: inf),
    ("f-inf", "float-inf", lambda: -inf),
    ("fnan", "nan", lambda: float("nan")),
    ("c1+2j", "complex", lambda: 1 + 2j),
    ("c0j", "complex", lambda: 0j),
    ("cnan", "nan", lambda: complex(nan, 0)),
    ("dec1.5", "Decimal", lambda: decimal.Decimal("1.5")),
    ("decNaN", "nan", lambda: decimal.Decimal("NaN")),
    ("decInf", "Decimal", lambda: decimal.Decimal("Infinity")),
    ("frac1/3", "Fraction", lambda: fractions.Fraction(1, 3)),
    ("frac7", "Fraction", lambda: fractions.Fraction(7)),
    ("s-empty", "str", lambda: ""),
    ("s-a", "str", lambda: "a"),
    ("s-abc", "str", lambda: "abc"),
    ("s-abd", "str", lambda: "abd"),
    ("s-quote", "str", lambda: "it's \"q\"\\\n"),
    ("s-nul", "str", lambda: "a\x00b"),
    ("s-surrogate", "str", lambda: "\ud800x"),
    ("s-uni", "str", lambda: "é\U0001f600"),
    ("b-empty", "bytes", lambda: b""),
    ("b-abc", "bytes", lambda: b"abc"),
    ("b-ff", "bytes", lambda: b"\xff\x00"),
    ("ba-abc", "bytearray", lambda: bytearray(b"abc")),
    ("none", "None", lambda: None),
    ("l-empty", "list", lambda: []),
    ("l-123", "list", lambda: [1, 2, 3]),
    ("l-nested", "list", lambda: [[1], [2, [3]]]),
    ("l-nan", "list", lambda: [float("nan")]),
    ("t-empty", "tuple", lambda: ()),
    ("t-12", "tuple", lambda: (1, 2)),
    ("t-ab", "tuple", lambda: ("a", "b")),
    ("set-12", "set", lambda: {1, 2}),
    ("set-1", "set", lambda: {1}),
    ("set-3", "set", lambda: {3}),
    ("fset-1", "frozenset", lambda: frozenset({1})),
    ("d-empty", "dict", lambda: {}),
    ("d-a1", "dict", lambda: {"a": 1}),
    ("range3", "range", lambda: range(3)),
    ("oneshot-123", "oneshot", lambda: OneShot([1, 2, 3])),
    ("oneshot-abc", "oneshot", lambda: OneShot(["a", "abc"])),
    ("gen-01", "generator", lambda: (i for i in range(2))),
    ("u-onlylt1", "partial:OnlyLt", lambda: OnlyLt(1)),
    ("u-onlylt2", "partial:OnlyLt", lambda: OnlyLt(2)),
    ("u-onlyeq1", "partial:OnlyEq", lambda: OnlyEq(1)),
    ("u-raiseq", "partial:RaisingEq", lambda: RaisingEq()),
    ("u-raisebool", "partial:RaisingBool", lambda: RaisingBool()),
    ("u-len0", "partial:LenOnly", lambda: LenOnly(0)),
    ("u-len3", "partial:LenOnly", lambda: LenOnly(3)),
    ("u-contains", "partial:ContainsOnly", lambda: ContainsOnly(1, "a")),
    ("u-nonbooleq1", "partial:NonBoolEq", lambda: NonBoolEq(1)),
    ("u-full1", "user:FullOrder", lambda: FullOrder(1)),
    ("u-full2", "user:FullOrder", lambda: FullOrder(2)),
    ("u-plain", "user:Plain", lambda: Plain(1)),
    ("type-int", "type", lambda: int),
    ("exc-inst", "exception", lambda: ValueError("x")),
    ("exc-type", "type", lambda: ValueError),
    ("ellipsis", "other", lambda: ...),
    ("notimpl", "other", lambda: NotImplemented),
]

# values that only the checks naming them use (not part of the sweeps over VALUES)
EXTRA_VALUES = [
    ("u-raisebase", "partial:RaisingBase", lambda: RaisingBase()),
]

BY_NAME = {n: (c, f) for n, c, f in VALUES + EXTRA_VALUES}


def fresh(name):
    return BY_NAME[name.rstrip("=")][1]()


def vclass(name):
    return BY_NAME[name.rstrip("=")][0]


def is_nan_like(v):
    try:
        return v != v  # noqa: PLR0124
    except Exception:  # noqa: BLE001
        return False


def same_value(a, b, depth=0):
    """Structural equality that treats NaN == NaN, distinguishes -0.0 from 0.0 and int from float."""
    if depth > 8:
        return True
    if type(a) is not type(b):
        return False
    if isinstance(a, float):
        if a != a and b != b:
            return True
        return a == b and math.copysign(1, a) == math.copysign(1, b)
    if isinstance(a, complex):
        return same_value(a.real, b.real) and same_value(a.imag, b.imag)
    if isinstance(a, (list, tuple)):
        return len(a) == len(b) and all(same_value(x, y, depth + 1) for x, y in zip(a, b))
    if isinstance(a, dict):
        return len(a) == len(b) and all(
            same_value(ka, kb, depth + 1) and same_value(va, vb, depth + 1)
            for (ka, va), (kb, vb) in zip(sorted(a.items(), key=repr), sorted(b.items(), key=repr))
        )
    if isinstance(a, (set, frozenset)):
        return len(a) == len(b) and sorted(map(repr, a)) == sorted(map(repr, b))
    if type(a).__module__ == __name__ or type(a).__name__ in {c.__name__ for c in USER_CLASSES}:
        return repr(a) == repr(b)
    try:
        return bool(a == b)
    except Exception:  # noqa: BLE001
        return repr(a) == repr(b)
